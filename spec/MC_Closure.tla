------------------------------- MODULE MC_Closure -------------------------------
(***************************************************************************)
(* The library as a state machine over ONE register (beyond the twenty     *)
(* properties, which are all about single calls or fixed-shape programs):  *)
(* the register starts in the value space (a finite value or one of the    *)
(* two NaN sentinels) and every step replaces it by the result of one      *)
(* library operation applied to it (and, for binary operations, to a       *)
(* constant operand), as LowSpec computes it.  TLC explores EVERY history   *)
(* of the reduced-width instance - the reachable set is a set of words, so  *)
(* the search is exhaustive in the length of the history too.              *)
(*                                                                         *)
(*   NoTrap   under the machine semantics (signed overflow wraps, only the *)
(*            division instruction can fault): no history reaches a        *)
(*            faulting operation, i.e. no sequence of calls that starts    *)
(*            from valid values terminates the process.  On LowSpec before *)
(*            the commit "fix: fixed / integer traps ..." TLC answers with *)
(*            -NaN -> floor -> / -1.                                        *)
(*   Closed   the register stays in the value space.  This does NOT hold   *)
(*            (floor(-NaN) and -NaN & x give the lowest raw word, which is  *)
(*            neither finite nor NaN); the counter-example is reported as  *)
(*            an observation about the library, not as a violation: no     *)
(*            listed property demands it.                                   *)
(*   NoUB     under the language semantics no history executes undefined   *)
(*            behaviour.  Fails after Closed fails (abs / unary minus of   *)
(*            the lowest raw word); inside the value space it holds, which *)
(*            is the single-call statement C07 makes.                      *)
(* The behaviours TLC generates from this machine at full width (simulate) *)
(* are replayed through the real library as programs (FxTrace).            *)
(***************************************************************************)
EXTENDS FxLaws, TLC

LM == INSTANCE FxLow WITH Mach <- TRUE        \* what the processor does
LU == INSTANCE FxLow WITH Mach <- FALSE       \* what the language defines

VARIABLES v, last, ub
vars == <<v, last, ub>>

RawInts == (-(2^(W-1))) .. (2^(W-1) - 1)
InSpace(x) == Finite(x) \/ IsNaN(x)

(* constant second operands and scalar operands *)
KFx  == {Z0, Z1, ZNeg(Z1), OneFx, ZNeg(OneFx), ZN(3), Maxv, Lowestv, NaNv, NegNaN}
KInt == {ZN(k) : k \in {-2, -1, 0, 1, 2, 3}}
KTag == {"i64", "i32", "u64"}
KSh  == {-1, 0, 1, F, W - 1}

Unary == {"neg", "abs", "floor", "ceil", "sqrt_abacus"}
Ev1(op, x)           == [op |-> op, t |-> <<"fx">>, a |-> <<x>>, r |-> 0, ot |-> "fx"]
Ev2(op, x, y)        == [op |-> op, t |-> <<"fx", "fx">>, a |-> <<x, y>>, r |-> 0, ot |-> "fx"]
EvS(op, x, tg, n)    == [op |-> op, t |-> <<"fx", tg>>, a |-> <<x, n>>, r |-> 0, ot |-> "fx"]
EvR(op, x, r)        == [op |-> op, t |-> <<"fx">>, a |-> <<x>>, r |-> r, ot |-> "fx"]

(* all events one step can perform on the current register value *)
Steps(x) ==
   {Ev1(op, x) : op \in Unary}
   \cup {Ev2(op, x, k) : op \in {"add", "sub", "mul", "div", "and"}, k \in KFx}
   \cup {Ev2(op, k, x) : op \in {"sub", "div"}, k \in KFx}
   \cup UNION {{EvS(op, x, tg, n) : op \in {"mul", "div"}, n \in {m \in KInt : InT(TypeOf(tg), m)}} : tg \in KTag}
   \cup {EvR(op, x, r) : op \in {"shl", "shr"}, r \in KSh}

Init == /\ v \in {ZN(i) : i \in RawInts} /\ InSpace(v)
        /\ last = [op |-> "init", t |-> <<>>, a |-> <<>>, r |-> 0, ot |-> "fx"] /\ ub = FALSE
Next ==
   /\ ~ZIsPoison(v)
   /\ \E e \in Steps(v) :
         /\ v' = LM!LowCore(e)
         /\ last' = e
         /\ ub' = (ub \/ ZIsPoison(LU!LowCore(e)))
Spec == Init /\ [][Next]_vars

NoTrap == ~ZIsPoison(v)
Closed == ZIsPoison(v) \/ InSpace(v)
NoUB   == ~ub
(* single-call form of NoUB (what C07 states): a step taken from inside the value space executes no undefined behaviour *)
NoUBInside == [][(InSpace(v) /\ ~ub) => ~ub']_vars
=============================================================================
