----------------------------- MODULE FxContract -----------------------------
(***************************************************************************)
(* HighSpec, arithmetic core: the sentences of properties C01-C04, C06,    *)
(* C13 (square root), C15, C17, C18 as predicates over one returned call   *)
(*     e = [op, t (operand type tags), a (operands), o (result), ...]      *)
(* Every clause demands no more than the property text; wherever the text  *)
(* leaves room the permissive reading is taken (DESIGN.md section 5.1).    *)
(* Width-generic like FxAlgo.  A predicate is TRUE on events it does not   *)
(* talk about; Rel_Cxx(e) says whether it talks about e (vacuity count).   *)
(***************************************************************************)
EXTENDS FxParams

IntTags == {"i8", "u8", "i16", "u16", "i32", "u32", "i64", "u64", "ll", "ull"}    \* ll/ull: (unsigned) long long, distinct types of the same width as int64_t/uint64_t
(* the integral types of the instance: widths W/8, W/4, W/2, W like 8/16/32/64 of the library *)
TypeOf(tag) ==
   CASE tag = "i8"  -> [bits |-> W \div 8, signed |-> TRUE]
     [] tag = "u8"  -> [bits |-> W \div 8, signed |-> FALSE]
     [] tag = "i16" -> [bits |-> W \div 4, signed |-> TRUE]
     [] tag = "u16" -> [bits |-> W \div 4, signed |-> FALSE]
     [] tag = "i32" -> [bits |-> W \div 2, signed |-> TRUE]
     [] tag = "u32" -> [bits |-> W \div 2, signed |-> FALSE]
     [] tag = "i64" -> [bits |-> W, signed |-> TRUE]
     [] tag = "u64" -> [bits |-> W, signed |-> FALSE]
     [] tag = "ll"  -> [bits |-> W, signed |-> TRUE]
     [] tag = "ull" -> [bits |-> W, signed |-> FALSE]

ZAbsDiff(a, b) == ZAbs(a -- b)
Sq(a) == a ** a
FloorFx(x) == x -- (x %% OneFx)                         \* greatest integer-valued raw <= x

-----------------------------------------------------------------------------
(* C01  a+b, a-b, +=, -= : exact or NaN *)
Rel_C01(e) == e.op \in {"add", "sub"} /\ e.t = <<"fx", "fx">> /\ Finite(e.a[1]) /\ Finite(e.a[2])
Ok_C01(e) ==
   Rel_C01(e) =>
      LET s == IF e.op = "add" THEN e.a[1] ++ e.a[2] ELSE e.a[1] -- e.a[2] IN
      IF Finite(s) THEN e.o = s ELSE IsNaN(e.o)

-----------------------------------------------------------------------------
(* C02  multiplication *)
IsIntTag(tag) == tag \in IntTags
Rel_C02(e) ==
   /\ e.op = "mul"
   /\ \/ e.t = <<"fx", "fx">> /\ Finite(e.a[1]) /\ Finite(e.a[2])
      \/ e.t[1] = "fx" /\ IsIntTag(e.t[2]) /\ Finite(e.a[1])
      \/ e.t[2] = "fx" /\ IsIntTag(e.t[1]) /\ Finite(e.a[2])
Ok_C02(e) ==
   Rel_C02(e) =>
      LET p == e.a[1] ** e.a[2] IN
      IF e.t = <<"fx", "fx">>
      THEN /\ IsNaN(e.o) \/ (ZAbsDiff(e.o ** OneFx, p) \preceq OneFx)   \* within one ulp, either direction
           /\ FitsW(p) => ~IsNaN(e.o)                                  \* raw product fits the word
           /\ ~InRange(p, Lowestv ** OneFx, Maxv ** OneFx) => IsNaN(e.o)  \* real product outside [lowest,max]
      ELSE IF Finite(p) THEN e.o = p ELSE IsNaN(e.o)                    \* fixed x integer: exact or NaN

-----------------------------------------------------------------------------
(* C03  division *)
Rel_C03(e) ==
   /\ e.op = "div"
   /\ \/ e.t = <<"fx", "fx">> /\ Finite(e.a[1]) /\ Finite(e.a[2])
      \/ e.t[1] = "fx" /\ IsIntTag(e.t[2]) /\ Finite(e.a[1])
(* "No operand combination raises SIGFPE or otherwise terminates the process": every division event, whatever the raw
   values of its operands (NaN sentinels and the lowest raw word included), must have returned *)
NoTrap_C03(e) == (e.op = "div" /\ e.t[1] = "fx" /\ (e.t[2] = "fx" \/ IsIntTag(e.t[2]))) => e.trap = ""
Ok_C03(e) ==
   /\ NoTrap_C03(e)
   /\ Rel_C03(e) =>
      /\ e.trap = ""                                                    \* never SIGFPE / abort
      /\ IF e.t = <<"fx", "fx">>
         THEN IF e.a[2] = Z0 THEN IsNaN(e.o)
              ELSE /\ IsNaN(e.o) \/ (ZAbsDiff(e.o ** e.a[2], e.a[1] ** OneFx) \preceq ZAbs(e.a[2]))
                   /\ (ZAbs(e.a[1]) \prec DomLim) => ~IsNaN(e.o)
         ELSE IF e.a[2] = Z0 THEN IsNaN(e.o) ELSE e.o = ZTDiv(e.a[1], e.a[2])

-----------------------------------------------------------------------------
(* C04  integer <-> fixed *)
Rel_C04(e) == e.op \in {"i2f", "f2i"} \/ (e.op \in {"add", "sub"} /\ (IsIntTag(e.t[1]) \/ IsIntTag(e.t[2])))
IntToFx(n) == IF ZAbs(n) \preceq MaxIntegral THEN n ** OneFx ELSE NaNv
Ok_C04(e) ==
   CASE e.op = "i2f" -> IF ZAbs(e.a[1]) \preceq MaxIntegral THEN e.o = e.a[1] ** OneFx ELSE IsNaN(e.o)
     [] e.op = "f2i" -> Finite(e.a[1]) =>
                          LET k == ZShr(e.a[1], F) IN
                          IF InT(TypeOf(e.ot), k) THEN e.o = k ELSE e.o = Z0
     [] e.op \in {"add", "sub"} /\ Rel_C04(e) ->
           (* implicit promotion: an out-of-range integer operand must act as NaN, an in-range one as n*2^F;
              observable when the fixed operand is zero *)
           LET i == IF IsIntTag(e.t[1]) THEN 1 ELSE 2
               n == e.a[i]
               x == e.a[3 - i]
           IN x = Z0 =>
                 IF ZAbs(n) \preceq MaxIntegral
                 THEN e.o = (IF e.op = "sub" /\ i = 2 THEN ZNeg(n ** OneFx) ELSE n ** OneFx)
                 ELSE IsNaN(e.o)
     [] OTHER -> TRUE

-----------------------------------------------------------------------------
(* C06  ordering, NaN sentinel, negation, abs.  cmp: e.o = <<eq,ne,lt,le,gt,ge>> as 0/1 *)
Rel_C06(e) == e.op \in {"cmp", "isnan", "neg", "abs"}
BZ(b) == IF b THEN Z1 ELSE Z0
Ok_C06(e) ==
   CASE e.op = "cmp" ->
           LET x == e.a[1]  y == e.a[2] IN
           e.o = <<BZ(x = y), BZ(x # y), BZ(x \prec y), BZ(x \preceq y), BZ(y \prec x), BZ(y \preceq x)>>
     [] e.op = "isnan" -> (Finite(e.a[1]) \/ IsNaN(e.a[1])) => e.o = BZ(IsNaN(e.a[1]))
     [] e.op = "neg"   -> Finite(e.a[1]) => e.o = ZNeg(e.a[1])
     [] e.op = "abs"   -> Finite(e.a[1]) => e.o = ZAbs(e.a[1])
     [] OTHER -> TRUE

-----------------------------------------------------------------------------
(* C13  square root (each algorithm separately; e.op in sqrt, sqrt_abacus, sqrt_std) *)
SqrtOps == {"sqrt", "sqrt_abacus", "sqrt_std"}
Rel_C13(e) == e.op \in SqrtOps /\ (e.a[1] \prec DomLim) /\ IsRaw(e.a[1])
Ok_C13(e) ==
   Rel_C13(e) =>
      IF e.a[1] \prec Z0 THEN IsNaN(e.o)
      ELSE LET X == e.a[1] ** OneFx IN
           /\ Z0 \preceq e.o
           /\ (e.o = Z0) => (X = Z0)
           /\ (Z0 \prec e.o) => (Sq(e.o -- Z1) \prec X)
           /\ X \prec Sq(e.o ++ Z1)
(* monotonicity, relational: two events of the same algorithm *)
Ok_C13_mono(e1, e2) ==
   (e1.op = e2.op /\ Rel_C13(e1) /\ Rel_C13(e2) /\ (Z0 \preceq e1.a[1]) /\ (e1.a[1] \preceq e2.a[1]))
      => (e1.o \preceq e2.o)

-----------------------------------------------------------------------------
(* C15  floor / ceil *)
C15Lim == (P(IB + F) -- Z1) ** OneFx              \* |x| < 2^47 - 1 as a value
Rel_C15(e) == e.op \in {"floor", "ceil"} /\ Finite(e.a[1]) /\ (ZAbs(e.a[1]) \prec C15Lim)
Ok_C15(e) ==
   Rel_C15(e) =>
      IF e.op = "floor" THEN e.o = FloorFx(e.a[1]) ELSE e.o = ZNeg(FloorFx(ZNeg(e.a[1])))

-----------------------------------------------------------------------------
(* C18  shifts and & ; the shift count e.r is a plain integer *)
Rel_C18(e) == (e.op \in {"shl", "shr"} /\ Finite(e.a[1]) /\ e.r <= W - 1) \/ e.op = "and"
Ok_C18(e) ==
   CASE e.op = "and" -> e.o = Wrap(ZAnd(WrapU(e.a[1]), WrapU(e.a[2])))
     [] e.op = "shr" /\ Rel_C18(e) -> IF e.r < 0 THEN IsNaN(e.o) ELSE e.o = ZShr(e.a[1], e.r)
     [] e.op = "shl" /\ Rel_C18(e) ->
           IF e.r < 0 THEN IsNaN(e.o)
           ELSE LET p == ZShl(e.a[1], e.r) IN
                IF Finite(p) THEN e.o = p
                ELSE ~((Z0 \prec e.a[1]) /\ (e.o \prec Z0)) /\ ~((e.a[1] \prec Z0) /\ (Z0 \prec e.o))
     [] OTHER -> TRUE
=============================================================================
