------------------------------ MODULE FxJudgeT ------------------------------
(***************************************************************************)
(* The verdict on one recorded event for ALL properties: the arithmetic    *)
(* core (FxJudge / FxContract) plus the elementary functions and tables    *)
(* (FxContractT, real-valued bounds through FxReal).  Full width only.     *)
(***************************************************************************)
EXTENDS FxJudge, FxContractT, FxContractF, FxLaws, FxContractX, FxContractXtra

LMT == INSTANCE FxLowT WITH Mach <- TRUE
FidelityAll(ab, e) == LMT!Fid(ab, e)

EventT(j) == Event(j)

OkAll(p, pv, e) ==
   CASE p = "C09" -> Ok_C09(e) [] p = "C10" -> Ok_C10(e) [] p = "C11" -> Ok_C11(e) [] p = "C12" -> Ok_C12(e)
     [] p = "C14" -> Ok_C14(e) [] p = "C19" -> Ok_C19(e) [] p = "C20" -> Ok_C20(e)
     [] p = "C05" -> Ok_C05(e) [] p = "C16" -> Ok_C16(e)
     [] p = "X01" -> Ok_X01(e) [] p = "X02" -> Ok_X02(e) [] p = "X03" -> Ok_X03(e)
     [] p = "X04" -> (Rel_X04(e) => FidelityAll(e.ab, e) # "differs")
     [] p = "X05" -> e.trap = "" /\ FidelityAll(e.ab, e) # "differs"       \* every step of a history returned, with LowSpec's result
     [] OTHER -> OkCore(p, pv, e)
RelAll(p, pv, e) ==
   CASE p = "C09" -> Rel_C09(e) [] p = "C10" -> Rel_C10(e) [] p = "C11" -> Rel_C11(e) [] p = "C12" -> Rel_C12(e)
     [] p = "C14" -> Rel_C14(e) [] p = "C19" -> Rel_C19(e) [] p = "C20" -> Rel_C20(e)
     [] p = "C05" -> Rel_C05(e) [] p = "C16" -> Rel_C16(e)
     [] p = "X01" -> Rel_X01(e) [] p = "X02" -> Rel_X02(e) [] p = "X03" -> Rel_X03(e) [] p = "X04" -> Rel_X04(e) [] p = "X05" -> TRUE
     [] OTHER -> RelCore(p, pv, e)
JudgeAll(p, pv, e) ==
   IF OkAll(p, pv, e) THEN "ok"
   ELSE IF \E d \in EnabledDeviations : Covers(d, p, e)
        THEN CHOOSE d \in EnabledDeviations : Covers(d, p, e)
        ELSE "violation"

(* ---- laws over recorded programs (C17) ---- *)
(* pr: the begin line of the program [prog, id, regs, f, n]; hist: recorded instructions [op, t, d, s, a, o] *)
LawApplies(p, pr) == p = "C17" /\ pr.prog \in LawNames
LawTag(pr) == IF "tag" \in DOMAIN pr THEN pr.tag ELSE "i64"
LawN(pr) == Dec(LawTag(pr), pr.n)
LawTail(pr) == LawTailOf(pr.prog, pr.regs[1], pr.regs[2], pr.regs[3], pr.f, LawN(pr), LawTag(pr))
TailOf(pr, hist) == LET k == Len(LawTail(pr)) IN SubSeq(hist, Len(hist) - k + 1, Len(hist))
LawShape(pr, hist) ==
   LET T == LawTail(pr)  k == Len(T) IN
   /\ Len(hist) >= k
   /\ LET H == TailOf(pr, hist) IN
      \A i \in 1..k : /\ H[i].op = T[i].op /\ H[i].t = T[i].t /\ H[i].d = T[i].d /\ H[i].s = T[i].s
                      /\ \A q \in DOMAIN T[i].s : T[i].s[q] = 0 => H[i].a[q] = T[i].imm[q]
LawOuts(pr, hist) == LET H == TailOf(pr, hist) IN [i \in 1..Len(H) |-> H[i].o]
LawRelevant(pr, env, hist) == LawHyp(pr.prog, pr.regs[1], pr.regs[2], pr.regs[3], pr.f, LawN(pr), env, LawOuts(pr, hist))
JudgeLaw(p, pr, env, hist) ==
   IF LawRelevant(pr, env, hist) => LawConcl(pr.prog, pr.regs[1], pr.regs[2], pr.regs[3], pr.f, LawN(pr), env)
   THEN "ok" ELSE "violation"

(* ---- merged cross-configuration events (C08) ---- *)
DecO(ot, o) == IF ot = "b6" THEN [i \in 1..6 |-> ZN(o[i])] ELSE Dec(ot, o)
XEvent(j) ==
   [op |-> j.op, t |-> j.t, a |-> [i \in DOMAIN j.a |-> Dec(j.t[i], j.a[i])], ot |-> j.ot, r |-> j.r, site |-> j.site, via |-> j.via, asg |-> j.asg,
    outs |-> [i \in DOMAIN j.outs |-> [o |-> DecO(j.ot, j.outs[i].o), trap |-> j.outs[i].trap, ab |-> j.outs[i].ab]],
    ce |-> j.ce]
(* deviation: the compiled lookup-table functions are not constexpr (open known finding) *)
CoversX(d, x) ==
   d = "C08-tables-not-constexpr" /\ x.op \in TableOps /\ RuntimeAgree(x) /\ SqrtAlgosClose(x)
   /\ \A i \in DOMAIN x.ce : x.ce[i].r \in {"ok", "rejected"}
JudgeX(p, x) ==
   IF p # "C08" \/ Ok_C08(x) THEN "ok"
   ELSE IF \E d \in EnabledDeviations : CoversX(d, x) THEN CHOOSE d \in EnabledDeviations : CoversX(d, x)
   ELSE "violation"
=============================================================================
