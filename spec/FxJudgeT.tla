------------------------------ MODULE FxJudgeT ------------------------------
(***************************************************************************)
(* The verdict on one recorded event for ALL properties: the arithmetic    *)
(* core (FxJudge / FxContract) plus the elementary functions and tables    *)
(* (FxContractT, real-valued bounds through FxReal).  Full width only.     *)
(***************************************************************************)
EXTENDS FxJudge, FxContractT, FxContractF

LMT == INSTANCE FxLowT WITH Mach <- TRUE
FidelityAll(e) == LMT!Fid(e)

EventT(j) == Event(j)

OkAll(p, pv, e) ==
   CASE p = "C09" -> Ok_C09(e) [] p = "C10" -> Ok_C10(e) [] p = "C11" -> Ok_C11(e) [] p = "C12" -> Ok_C12(e)
     [] p = "C14" -> Ok_C14(e) [] p = "C19" -> Ok_C19(e) [] p = "C20" -> Ok_C20(e)
     [] p = "C05" -> Ok_C05(e) [] p = "C16" -> Ok_C16(e)
     [] OTHER -> OkCore(p, pv, e)
RelAll(p, pv, e) ==
   CASE p = "C09" -> Rel_C09(e) [] p = "C10" -> Rel_C10(e) [] p = "C11" -> Rel_C11(e) [] p = "C12" -> Rel_C12(e)
     [] p = "C14" -> Rel_C14(e) [] p = "C19" -> Rel_C19(e) [] p = "C20" -> Rel_C20(e)
     [] p = "C05" -> Rel_C05(e) [] p = "C16" -> Rel_C16(e)
     [] OTHER -> RelCore(p, pv, e)
JudgeAll(p, pv, e) ==
   IF OkAll(p, pv, e) THEN "ok"
   ELSE IF \E d \in EnabledDeviations : Covers(d, p, e)
        THEN CHOOSE d \in EnabledDeviations : Covers(d, p, e)
        ELSE "violation"
=============================================================================
