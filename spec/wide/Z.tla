--------------------------------- MODULE Z ---------------------------------
(***************************************************************************)
(* Numeric substrate, WIDE variant: arbitrary precision integers.          *)
(*                                                                         *)
(* TLC's integers are 32-bit, the library under specification computes on  *)
(* 64-bit words and the contracts need ~200-bit rationals.  A value of     *)
(* this module is a normalised tuple <<sign, l0, l1, ..>>: sign in         *)
(* {-1,0,1}, limbs base 2^16 little endian, no leading zero limb, zero is  *)
(* <<0>>.  <<2>> is the poison value (result of undefined behaviour).      *)
(*                                                                         *)
(* Every operator below is DEFINED in TLA+ (school-book algorithms, no     *)
(* intermediate above 2^31).  For speed TLC is normally started with the   *)
(* Java overrides of spec/java/fxov/Ov.java (BigInteger); ZSelfTest checks *)
(* that overrides and definitions agree.  The module spec/native/Z.tla has *)
(* the same interface over TLC's own integers.                             *)
(***************************************************************************)
LOCAL INSTANCE Integers
LOCAL INSTANCE Sequences
LOCAL INSTANCE Bitwise

LOCAL BB == 65536

ZPoison == <<2>>
ZIsPoison(a) == a[1] = 2

-----------------------------------------------------------------------------
(* magnitudes: sequences of limbs *)
RECURSIVE MNorm(_)
LOCAL MNorm(m) == IF m = <<>> THEN <<>>
                  ELSE IF m[Len(m)] = 0 THEN MNorm(SubSeq(m, 1, Len(m) - 1)) ELSE m
LOCAL Mk(s, m) == LET n == MNorm(m) IN IF n = <<>> THEN <<0>> ELSE <<s>> \o n
LOCAL Mag(a) == SubSeq(a, 2, Len(a))
LOCAL Limb(m, i) == IF i <= Len(m) THEN m[i] ELSE 0
LOCAL MaxI(a, b) == IF a >= b THEN a ELSE b

RECURSIVE MCmpAt(_, _, _)
LOCAL MCmpAt(a, b, i) == IF i = 0 THEN 0
                         ELSE IF a[i] < b[i] THEN -1 ELSE IF a[i] > b[i] THEN 1 ELSE MCmpAt(a, b, i - 1)
LOCAL MCmp(a, b) == IF Len(a) < Len(b) THEN -1 ELSE IF Len(a) > Len(b) THEN 1 ELSE MCmpAt(a, b, Len(a))

RECURSIVE MAddAt(_, _, _, _, _)
LOCAL MAddAt(a, b, i, n, c) ==
   IF i > n THEN (IF c = 0 THEN <<>> ELSE <<c>>)
   ELSE LET s == Limb(a, i) + Limb(b, i) + c IN <<s % BB>> \o MAddAt(a, b, i + 1, n, s \div BB)
LOCAL MAdd(a, b) == MAddAt(a, b, 1, MaxI(Len(a), Len(b)), 0)

RECURSIVE MSubAt(_, _, _, _)
LOCAL MSubAt(a, b, i, br) ==            \* requires a >= b
   IF i > Len(a) THEN <<>>
   ELSE LET s == a[i] - Limb(b, i) - br IN
        IF s < 0 THEN <<s + BB>> \o MSubAt(a, b, i + 1, 1) ELSE <<s>> \o MSubAt(a, b, i + 1, 0)
LOCAL MSub(a, b) == MNorm(MSubAt(a, b, 1, 0))

(* x*y for limbs x,y < 2^16 as <<lo, hi>>, never exceeding 2^25 on the way *)
LOCAL LMul(x, y) == LET t1 == (x % 256) * y
                        t2 == (x \div 256) * y
                        inner == (t2 % 256) * 256 + t1
                    IN <<inner % BB, (t2 \div 256) + (inner \div BB)>>

RECURSIVE MMulLimbAt(_, _, _, _)
LOCAL MMulLimbAt(a, d, i, c) ==
   IF i > Len(a) THEN (IF c = 0 THEN <<>> ELSE <<c>>)
   ELSE LET p == LMul(a[i], d)
            s == p[1] + c
        IN <<s % BB>> \o MMulLimbAt(a, d, i + 1, p[2] + (s \div BB))
LOCAL MMulLimb(a, d) == MNorm(MMulLimbAt(a, d, 1, 0))

RECURSIVE MMulAt(_, _, _)
LOCAL MMulAt(a, b, j) == IF j > Len(b) THEN <<>>
                         ELSE LET rest == MMulAt(a, b, j + 1) IN
                              MAdd(MMulLimb(a, b[j]), IF rest = <<>> THEN <<>> ELSE <<0>> \o rest)
LOCAL MMul(a, b) == MNorm(MMulAt(a, b, 1))

RECURSIVE Pow2I(_)
LOCAL Pow2I(k) == IF k = 0 THEN 1 ELSE 2 * Pow2I(k - 1)     \* k <= 16
LOCAL Zeros(n) == [i \in 1..n |-> 0]
LOCAL MShl(a, k) == IF a = <<>> THEN <<>> ELSE Zeros(k \div 16) \o MMulLimb(a, Pow2I(k % 16))

RECURSIVE MShrBitsAt(_, _, _, _)
LOCAL MShrBitsAt(a, k, i, d) ==       \* a / 2^k for 0 < k < 16, from the top limb down; d = 2^k
   IF i > Len(a) THEN <<>>
   ELSE <<(a[i] \div d) + (Limb(a, i + 1) % d) * (BB \div d)>> \o MShrBitsAt(a, k, i + 1, d)
LOCAL MShr(a, k) ==
   LET w == k \div 16
       r == IF w >= Len(a) THEN <<>> ELSE SubSeq(a, w + 1, Len(a))
   IN IF k % 16 = 0 THEN r ELSE MNorm(MShrBitsAt(r, k % 16, 1, Pow2I(k % 16)))

RECURSIVE LBitLen(_)
LOCAL LBitLen(x) == IF x = 0 THEN 0 ELSE 1 + LBitLen(x \div 2)
LOCAL MBitLen(a) == IF a = <<>> THEN 0 ELSE 16 * (Len(a) - 1) + LBitLen(a[Len(a)])
LOCAL MBit(a, i) == (Limb(a, (i \div 16) + 1) \div Pow2I(i % 16)) % 2       \* bit i (from 0)

(* binary long division: <<quotient, remainder>> of magnitudes, b # <<>> *)
RECURSIVE MDivAt(_, _, _, _, _)
LOCAL MDivAt(a, b, i, q, r) ==
   IF i < 0 THEN <<MNorm(q), r>>
   ELSE LET r2 == MNorm(MAdd(MShl(r, 1), IF MBit(a, i) = 1 THEN <<1>> ELSE <<>>))
        IN IF MCmp(r2, b) >= 0
           THEN MDivAt(a, b, i - 1, MAdd(MShl(q, 1), <<1>>), MSub(r2, b))
           ELSE MDivAt(a, b, i - 1, MShl(q, 1), r2)
LOCAL MDivMod(a, b) == MDivAt(a, b, MBitLen(a) - 1, <<>>, <<>>)

RECURSIVE MAndAt(_, _, _)
LOCAL MAndAt(a, b, i) == IF i > Len(a) \/ i > Len(b) THEN <<>> ELSE <<a[i] & b[i]>> \o MAndAt(a, b, i + 1)

RECURSIVE MSqrtAt(_, _, _)
LOCAL MSqrtAt(a, r, bit) ==
   IF bit < 0 THEN r
   ELSE LET t == MAdd(r, MShl(<<1>>, bit)) IN
        IF MCmp(MMul(t, t), a) <= 0 THEN MSqrtAt(a, t, bit - 1) ELSE MSqrtAt(a, r, bit - 1)

-----------------------------------------------------------------------------
(* the interface *)
ZN(k) == IF k = 0 THEN <<0>>
         ELSE LET m == IF k < 0 THEN -k ELSE k IN Mk(IF k < 0 THEN -1 ELSE 1, <<m % BB, m \div BB>>)

ZNeg(a) == IF ZIsPoison(a) THEN ZPoison ELSE <<-a[1]>> \o Mag(a)
ZAbs(a) == IF ZIsPoison(a) THEN ZPoison ELSE <<a[1] * a[1]>> \o Mag(a)
ZSgn(a) == a[1]

ZAdd(a, b) ==
   IF ZIsPoison(a) \/ ZIsPoison(b) THEN ZPoison
   ELSE IF a[1] = 0 THEN b ELSE IF b[1] = 0 THEN a
   ELSE IF a[1] = b[1] THEN Mk(a[1], MAdd(Mag(a), Mag(b)))
   ELSE LET c == MCmp(Mag(a), Mag(b)) IN
        IF c = 0 THEN <<0>>
        ELSE IF c > 0 THEN Mk(a[1], MSub(Mag(a), Mag(b))) ELSE Mk(b[1], MSub(Mag(b), Mag(a)))
ZSub(a, b) == IF ZIsPoison(a) \/ ZIsPoison(b) THEN ZPoison ELSE ZAdd(a, ZNeg(b))
ZMul(a, b) == IF ZIsPoison(a) \/ ZIsPoison(b) THEN ZPoison
              ELSE IF a[1] = 0 \/ b[1] = 0 THEN <<0>> ELSE Mk(a[1] * b[1], MMul(Mag(a), Mag(b)))

ZLt(a, b) == IF a[1] # b[1] THEN a[1] < b[1]
             ELSE IF a[1] = 0 THEN FALSE
             ELSE IF a[1] = 1 THEN MCmp(Mag(a), Mag(b)) < 0 ELSE MCmp(Mag(a), Mag(b)) > 0
ZLe(a, b) == a = b \/ ZLt(a, b)

(* truncating division and remainder (C++): sign of the remainder = sign of the dividend *)
ZTDiv(a, b) == IF ZIsPoison(a) \/ ZIsPoison(b) THEN ZPoison
               ELSE IF a[1] = 0 THEN <<0>> ELSE Mk(a[1] * b[1], MDivMod(Mag(a), Mag(b))[1])
ZTRem(a, b) == IF ZIsPoison(a) \/ ZIsPoison(b) THEN ZPoison
               ELSE IF a[1] = 0 THEN <<0>> ELSE Mk(a[1], MDivMod(Mag(a), Mag(b))[2])
(* floor division and modulus (TLA+ \div and %): sign of the modulus = sign of the divisor *)
ZFMod(a, b) == LET r == ZTRem(a, b) IN
               IF ZIsPoison(r) THEN ZPoison ELSE IF r[1] # 0 /\ r[1] # b[1] THEN ZAdd(r, b) ELSE r
ZFDiv(a, b) == LET q == ZTDiv(a, b)  r == ZTRem(a, b) IN
               IF ZIsPoison(q) THEN ZPoison ELSE IF r[1] # 0 /\ r[1] # b[1] THEN ZSub(q, <<1, 1>>) ELSE q

ZPow2(k)    == Mk(1, MShl(<<1>>, k))
ZShl(a, k)  == IF ZIsPoison(a) THEN ZPoison ELSE IF a[1] = 0 THEN a ELSE Mk(a[1], MShl(Mag(a), k))
ZShr(a, k)  == IF ZIsPoison(a) THEN ZPoison                               \* floor(a / 2^k)
               ELSE IF a[1] >= 0 THEN Mk(a[1], MShr(Mag(a), k)) ELSE ZFDiv(a, ZPow2(k))
ZBitLen(a)  == MBitLen(Mag(a))                                            \* bits of |a|
ZAnd(a, b)  == IF ZIsPoison(a) \/ ZIsPoison(b) THEN ZPoison ELSE Mk(1, MAndAt(Mag(a), Mag(b), 1))   \* a, b >= 0
ZISqrt(a)   == IF ZIsPoison(a) THEN ZPoison
               ELSE IF a[1] = 0 THEN a ELSE Mk(1, MSqrtAt(Mag(a), <<>>, (MBitLen(Mag(a)) + 1) \div 2))
ZToInt(a)   == a[1] * (Limb(Mag(a), 1) + BB * Limb(Mag(a), 2))            \* |a| < 2^31
ZFromLimbs(s) == Mk(1, s)
ZToLimbs(a, n) == [i \in 1..n |-> Limb(Mag(a), i)]

a ++ b == ZAdd(a, b)
a -- b == ZSub(a, b)
a ** b == ZMul(a, b)
a // b == ZFDiv(a, b)
a %% b == ZFMod(a, b)
a \prec b == ZLt(a, b)
a \preceq b == ZLe(a, b)
=============================================================================
