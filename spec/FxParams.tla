------------------------------ MODULE FxParams ------------------------------
(***************************************************************************)
(* Word-size parameters of the fixed-point machine and what follows from   *)
(* them.  The library is the instance (W,F,IB) = (64,16,31); the reduced   *)
(* instances keep the structural relation W-1 = IB + 2F.                   *)
(*   raw value r  denotes the real number r / 2^F                          *)
(*   NaN sentinel = 2^(W-1)-1 (and its negation), max() = NaN-1            *)
(***************************************************************************)
EXTENDS Z, Integers, Sequences

CONSTANTS W,      \* bits of fixed_internal
          F,      \* fraction bits
          IB,     \* bits of the magnitude of a convertible integer (max_integral = 2^IB - 1)
          Std     \* language standard: 17, 20, 23 (only changes signed left shift)

ASSUME W - 1 = IB + 2 * F /\ F >= 1 /\ IB >= 1 /\ Std \in {17, 20, 23}

P(k)     == ZPow2(k)
Z0       == ZN(0)
Z1       == ZN(1)
IntMax   == P(W - 1) -- Z1
IntMin   == ZNeg(P(W - 1))
NaNv     == IntMax                      \* quiet_NaN()
NegNaN   == ZNeg(NaNv)
Maxv     == NaNv -- Z1                  \* max()
Lowestv  == ZNeg(Maxv)                  \* lowest()
OneFx    == P(F)                        \* 1.0
FMask    == P(F) -- Z1
MaxIntegral == P(IB) -- Z1              \* limits_::max_integral(); min_integral() is its negation
DomLim   == P(IB + F)                   \* "|x| < 2^31" as a raw value: 2^47

IsRaw(x)   == (IntMin \preceq x) /\ (x \preceq IntMax)
FitsW(x)   == IsRaw(x)
IsNaN(x)   == x = NaNv \/ x = NegNaN
Finite(x)  == (Lowestv \preceq x) /\ (x \preceq Maxv)
Wrap(x)    == ((x ++ P(W - 1)) %% P(W)) -- P(W - 1)     \* two's complement reduction to W bits
WrapU(x)   == x %% P(W)
ZMin(a, b) == IF a \preceq b THEN a ELSE b
ZMax(a, b) == IF a \preceq b THEN b ELSE a
InRange(x, lo, hi) == (lo \preceq x) /\ (x \preceq hi)

(* integral operand types: [bits |-> n, signed |-> BOOLEAN] *)
TMin(t)  == IF t.signed THEN ZNeg(P(t.bits - 1)) ELSE Z0
TMax(t)  == IF t.signed THEN P(t.bits - 1) -- Z1 ELSE P(t.bits) -- Z1
InT(t, n) == InRange(n, TMin(t), TMax(t))
WrapT(t, x) == IF t.signed THEN ((x ++ P(t.bits - 1)) %% P(t.bits)) -- P(t.bits - 1) ELSE x %% P(t.bits)
=============================================================================
