package fxov;

import java.math.BigInteger;

import tlc2.overrides.ITLCOverrides;
import tlc2.overrides.TLAPlusOperator;
import tlc2.value.impl.BoolValue;
import tlc2.value.impl.IntValue;
import tlc2.value.impl.TupleValue;
import tlc2.value.impl.Value;

/**
 * Java module overrides for the operators of spec/wide/Z.tla (arbitrary precision integers
 * represented as normalised tuples <<sign, l0, l1, ...>> of base-2^16 limbs, little endian;
 * zero is <<0>>; the poison value is <<2>>).  The TLA+ definitions in Z.tla are the semantics;
 * these overrides only make them fast (java.math.BigInteger).  spec/wide/ZSelfTest.tla compares
 * the two on a few thousand vectors.
 */
public class Ov implements ITLCOverrides {

  @SuppressWarnings("rawtypes")
  @Override
  public Class[] get() {
    return new Class[] { Ov.class };
  }

  private static final BigInteger MASK16 = BigInteger.valueOf(0xffff);
  private static final Value POISON = new TupleValue(new Value[] { IntValue.gen(2) });
  private static final Value ZERO = new TupleValue(new Value[] { IntValue.gen(0) });

  private static boolean isPoison(Value v) {
    TupleValue t = (TupleValue) v.toTuple();
    return ((IntValue) t.elems[0]).val == 2;
  }

  static BigInteger B(Value v) {
    TupleValue t = (TupleValue) v.toTuple();
    int s = ((IntValue) t.elems[0]).val;
    if (s == 0) return BigInteger.ZERO;
    int n = t.elems.length - 1;
    if (n <= 3) {
      long acc = 0;
      for (int i = n; i >= 1; i--) acc = (acc << 16) | ((IntValue) t.elems[i]).val;
      return BigInteger.valueOf(s < 0 ? -acc : acc);
    }
    byte[] mag = new byte[2 * n];
    for (int i = 1; i <= n; i++) {
      int l = ((IntValue) t.elems[i]).val;
      mag[2 * (n - i)] = (byte) (l >> 8);
      mag[2 * (n - i) + 1] = (byte) l;
    }
    return new BigInteger(s < 0 ? -1 : 1, mag);
  }

  static Value V(BigInteger b) {
    int s = b.signum();
    if (s == 0) return ZERO;
    BigInteger m = b.abs();
    int n = (m.bitLength() + 15) / 16;
    Value[] e = new Value[n + 1];
    e[0] = IntValue.gen(s);
    if (n <= 3) {
      long x = m.longValue();
      for (int i = 1; i <= n; i++) {
        e[i] = IntValue.gen((int) (x & 0xffff));
        x >>>= 16;
      }
    } else {
      byte[] mag = m.toByteArray(); // big endian, maybe with a leading zero byte
      int len = mag.length;
      for (int i = 1; i <= n; i++) {
        int lo = len - 1 - 2 * (i - 1);
        int hi = lo - 1;
        int l = (mag[lo] & 0xff) | (hi >= 0 ? (mag[hi] & 0xff) << 8 : 0);
        e[i] = IntValue.gen(l);
      }
    }
    return new TupleValue(e);
  }

  private static int I(Value v) {
    return ((IntValue) v).val;
  }

  @TLAPlusOperator(identifier = "ZN", module = "Z", warn = false)
  public static Value zn(Value k) {
    return V(BigInteger.valueOf(I(k)));
  }

  @TLAPlusOperator(identifier = "ZAdd", module = "Z", warn = false)
  public static Value zadd(Value a, Value b) {
    if (isPoison(a) || isPoison(b)) return POISON;
    return V(B(a).add(B(b)));
  }

  @TLAPlusOperator(identifier = "ZSub", module = "Z", warn = false)
  public static Value zsub(Value a, Value b) {
    if (isPoison(a) || isPoison(b)) return POISON;
    return V(B(a).subtract(B(b)));
  }

  @TLAPlusOperator(identifier = "ZMul", module = "Z", warn = false)
  public static Value zmul(Value a, Value b) {
    if (isPoison(a) || isPoison(b)) return POISON;
    return V(B(a).multiply(B(b)));
  }

  /** floor division; the divisor must not be zero */
  @TLAPlusOperator(identifier = "ZFDiv", module = "Z", warn = false)
  public static Value zfdiv(Value a, Value b) {
    if (isPoison(a) || isPoison(b)) return POISON;
    BigInteger x = B(a), y = B(b);
    BigInteger[] qr = x.divideAndRemainder(y);
    if (qr[1].signum() != 0 && (qr[1].signum() != y.signum())) return V(qr[0].subtract(BigInteger.ONE));
    return V(qr[0]);
  }

  /** floor modulus (sign of the divisor) */
  @TLAPlusOperator(identifier = "ZFMod", module = "Z", warn = false)
  public static Value zfmod(Value a, Value b) {
    if (isPoison(a) || isPoison(b)) return POISON;
    BigInteger x = B(a), y = B(b);
    BigInteger r = x.remainder(y);
    if (r.signum() != 0 && (r.signum() != y.signum())) return V(r.add(y));
    return V(r);
  }

  /** truncating division (C++ semantics) */
  @TLAPlusOperator(identifier = "ZTDiv", module = "Z", warn = false)
  public static Value ztdiv(Value a, Value b) {
    if (isPoison(a) || isPoison(b)) return POISON;
    return V(B(a).divide(B(b)));
  }

  /** truncating remainder (C++ semantics) */
  @TLAPlusOperator(identifier = "ZTRem", module = "Z", warn = false)
  public static Value ztrem(Value a, Value b) {
    if (isPoison(a) || isPoison(b)) return POISON;
    return V(B(a).remainder(B(b)));
  }

  @TLAPlusOperator(identifier = "ZLt", module = "Z", warn = false)
  public static Value zlt(Value a, Value b) {
    return B(a).compareTo(B(b)) < 0 ? BoolValue.ValTrue : BoolValue.ValFalse;
  }

  @TLAPlusOperator(identifier = "ZLe", module = "Z", warn = false)
  public static Value zle(Value a, Value b) {
    return B(a).compareTo(B(b)) <= 0 ? BoolValue.ValTrue : BoolValue.ValFalse;
  }

  @TLAPlusOperator(identifier = "ZNeg", module = "Z", warn = false)
  public static Value zneg(Value a) {
    if (isPoison(a)) return POISON;
    return V(B(a).negate());
  }

  @TLAPlusOperator(identifier = "ZAbs", module = "Z", warn = false)
  public static Value zabs(Value a) {
    if (isPoison(a)) return POISON;
    return V(B(a).abs());
  }

  @TLAPlusOperator(identifier = "ZSgn", module = "Z", warn = false)
  public static Value zsgn(Value a) {
    return IntValue.gen(B(a).signum());
  }

  @TLAPlusOperator(identifier = "ZPow2", module = "Z", warn = false)
  public static Value zpow2(Value k) {
    return V(BigInteger.ONE.shiftLeft(I(k)));
  }

  @TLAPlusOperator(identifier = "ZShl", module = "Z", warn = false)
  public static Value zshl(Value a, Value k) {
    if (isPoison(a)) return POISON;
    return V(B(a).shiftLeft(I(k)));
  }

  /** floor(a / 2^k) */
  @TLAPlusOperator(identifier = "ZShr", module = "Z", warn = false)
  public static Value zshr(Value a, Value k) {
    if (isPoison(a)) return POISON;
    return V(B(a).shiftRight(I(k)));
  }

  @TLAPlusOperator(identifier = "ZBitLen", module = "Z", warn = false)
  public static Value zbitlen(Value a) {
    return IntValue.gen(B(a).abs().bitLength());
  }

  /** bitwise and of two non-negative integers */
  @TLAPlusOperator(identifier = "ZAnd", module = "Z", warn = false)
  public static Value zand(Value a, Value b) {
    if (isPoison(a) || isPoison(b)) return POISON;
    return V(B(a).and(B(b)));
  }

  @TLAPlusOperator(identifier = "ZISqrt", module = "Z", warn = false)
  public static Value zisqrt(Value a) {
    if (isPoison(a)) return POISON;
    return V(B(a).sqrt());
  }

  @TLAPlusOperator(identifier = "ZToInt", module = "Z", warn = false)
  public static Value ztoint(Value a) {
    return IntValue.gen(B(a).intValueExact());
  }

  /** unsigned integer from a sequence of base-2^16 limbs, little endian */
  @TLAPlusOperator(identifier = "ZFromLimbs", module = "Z", warn = false)
  public static Value zfromlimbs(Value s) {
    TupleValue t = (TupleValue) s.toTuple();
    BigInteger acc = BigInteger.ZERO;
    for (int i = t.elems.length - 1; i >= 0; i--) {
      acc = acc.shiftLeft(16).or(BigInteger.valueOf(I(t.elems[i]) & 0xffff));
    }
    return V(acc);
  }

  /** the n low base-2^16 limbs of a non-negative integer */
  @TLAPlusOperator(identifier = "ZToLimbs", module = "Z", warn = false)
  public static Value ztolimbs(Value a, Value n) {
    BigInteger x = B(a);
    int k = I(n);
    Value[] e = new Value[k];
    for (int i = 0; i < k; i++) {
      e[i] = IntValue.gen(x.and(MASK16).intValue());
      x = x.shiftRight(16);
    }
    return new TupleValue(e);
  }
}
