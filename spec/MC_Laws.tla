------------------------------- MODULE MC_Laws -------------------------------
(***************************************************************************)
(* E1 for C17: the register machine INTERPRETED over LowSpec at reduced     *)
(* width.  For every triple of raw operands (and every integer operand of   *)
(* the two scalar laws) the law's instruction tail (FxLaws) is executed on  *)
(* the transcribed algorithms (FxAlgo), and the law must hold on the        *)
(* resulting register file.  This is the model-level statement "an          *)
(* implementation that behaves like LowSpec obeys the algebraic laws", for  *)
(* all operands of the small instance; the real code is bound to it by the  *)
(* law programs replayed in FxTrace.                                        *)
(***************************************************************************)
EXTENDS FxLaws, TLC

LU == INSTANCE FxLow WITH Mach <- FALSE

VARIABLES pc, a, b, c, last
vars == <<pc, a, b, c, last>>

RawInts == (-(2^(W-1))) .. (2^(W-1) - 1)
NsModel == {ZN(k) : k \in {-3, -2, -1, 1, 2, 3, 4, 5, 7}}
NReg == 12

(* one instruction of the machine on the register file env, by LowSpec *)
ExecI(i, env) ==
   LET x == IF i.s[1] = 0 THEN i.imm[1] ELSE env[i.s[1]]
       y == IF Len(i.s) >= 2 THEN (IF i.s[2] = 0 THEN i.imm[2] ELSE env[i.s[2]]) ELSE Z0
       e == [op |-> i.op, t |-> i.t, a |-> IF Len(i.s) >= 2 THEN <<x, y>> ELSE <<x>>, r |-> 0, ot |-> "fx"]
   IN IF i.op = "load" THEN x ELSE LU!LowCore(e)
RECURSIVE Run(_, _, _, _)
Run(T, k, env, outs) ==
   IF k > Len(T) THEN [env |-> env, outs |-> outs]
   ELSE LET o == ExecI(T[k], env) IN Run(T, k + 1, [env EXCEPT ![T[k].d] = o], Append(outs, o))

Check(name, n, tg) ==
   LET T   == LawTailOf(name, 1, 2, 3, 4, n, tg)
       r   == Run(T, 1, [i \in 1..NReg |-> IF i = 1 THEN a ELSE IF i = 2 THEN b ELSE IF i = 3 THEN c ELSE Z0], <<>>)
       ub  == \E i \in DOMAIN r.outs : ZIsPoison(r.outs[i])
       hyp == ~ub /\ LawHyp(name, 1, 2, 3, 4, n, r.env, r.outs)
       dom == Finite(a) /\ Finite(b) /\ Finite(c)          \* the laws quantify over finite operands
   IN [law |-> name, n |-> n, ub |-> ub, hyp |-> hyp, ok |-> dom => ((~ub) /\ (hyp => LawConcl(name, 1, 2, 3, 4, n, r.env)))]

NoLaw == [law |-> "none", n |-> Z0, ub |-> FALSE, hyp |-> FALSE, ok |-> TRUE]
Init == pc = "a" /\ a = Z0 /\ b = Z0 /\ c = Z0 /\ last = NoLaw
LoadA == pc = "a" /\ \E i \in RawInts : a' = ZN(i) /\ pc' = "b" /\ UNCHANGED <<b, c, last>>
LoadB == pc = "b" /\ \E i \in RawInts : b' = ZN(i) /\ pc' = "c" /\ UNCHANGED <<a, c, last>>
LoadC == pc = "c" /\ \E i \in RawInts : c' = ZN(i) /\ pc' = "law" /\ UNCHANGED <<a, b, last>>
Law ==
   /\ pc = "law" /\ pc' = "done" /\ UNCHANGED <<a, b, c>>
   /\ \E name \in LawNames :
         \* laws with fewer operands are run once per distinct operand tuple (the unused registers must be zero)
         /\ (Operands(name) < 3 => c = Z0) /\ (Operands(name) < 2 => b = Z0)
         /\ \E n \in (IF NeedsN(name) THEN NsModel ELSE {Z0}), tg \in (IF NeedsN(name) THEN {"i64", "u64", "i32"} ELSE {"i64"}) :
               InT(TypeOf(tg), n) /\ last' = Check(name, n, tg)
Next == LoadA \/ LoadB \/ LoadC \/ Law
Spec == Init /\ [][Next]_vars

LawsHold == last.ok
=============================================================================
