--------------------------- MODULE FxContractXtra ---------------------------
(***************************************************************************)
(* Behaviour of the library OUTSIDE the twenty listed properties, specified *)
(* from the code and the documentation so that the specification covers    *)
(* the whole public surface.  The ids X01.. are not properties of          *)
(* /verif/properties.jsonl; `bin/fxcheck X01` etc. are extra checks that   *)
(* are not registered in MANIFEST.json and never affect a Cxx verdict.     *)
(*   X01  stream output (iostream.h): "NaN" for the quiet NaN, otherwise    *)
(*        the exact decimal expansion with 16 fraction digits (raw / 2^16   *)
(*        has at most 16 decimal fraction digits, and double holds it       *)
(*        exactly for |raw| <= 2^53)                                        *)
(*   X02  std::numeric_limits<fixed_t> constants and their relations        *)
(*   X03  the _fix literal operators: integer literals convert like         *)
(*        int64_t, floating literals like double                            *)
(*   X04  NaN flow: what the operators do with NaN operands is whatever     *)
(*        LowSpec says (NaN is NOT sticky: NaN + (-5 raw) is finite);       *)
(*        judged as fidelity, i.e. code = LowSpec on NaN operands           *)
(***************************************************************************)
EXTENDS FxContract, FxFloat

RECURSIVE DecDigits(_)
DecDigits(n) == IF n \prec ZN(10) THEN <<48 + ZToInt(n)>> ELSE Append(DecDigits(ZTDiv(n, ZN(10))), 48 + ZToInt(ZTRem(n, ZN(10))))
RECURSIVE PadLeft(_, _)
PadLeft(s, w) == IF Len(s) >= w THEN s ELSE PadLeft(<<48>> \o s, w)
Pow5_16 == ZN(390625) ** ZN(390625)                                   \* 5^16 = 10^16 / 2^16
ExpectedText(raw) ==
   LET m == ZAbs(raw)
       ip == ZShr(m, F)
       fr == (m %% OneFx) ** Pow5_16                                    \* the 16 fraction digits as an integer
   IN (IF raw \prec Z0 THEN <<45>> ELSE <<>>) \o DecDigits(ip) \o <<46>> \o PadLeft(DecDigits(fr), 16)
Rel_X01(e) == e.op = "stream" /\ (e.a[1] = NaNv \/ (ZAbs(e.a[1]) \preceq P(53)))
Ok_X01(e) == Rel_X01(e) => (IF e.a[1] = NaNv THEN e.text = <<78, 97, 78>> ELSE e.text = ExpectedText(e.a[1]))

Rel_X02(e) == e.op = "limits"
Ok_X02(e) ==
   Rel_X02(e) =>
      LET w == ZToInt(e.a[1]) IN
      CASE w = 0 -> e.o = Z1 [] w = 1 -> e.o = Lowestv [] w = 2 -> e.o = Maxv [] w = 3 -> e.o = OneFx [] w = 4 -> e.o = Z1
        [] w = 5 -> e.o = Z1 [] w = 6 -> e.o = NaNv [] w = 7 -> e.o = MaxIntegral [] w = 8 -> e.o = ZNeg(MaxIntegral)
        [] w = 9 -> e.o = NaNv [] w = 10 -> e.o = ZN(F) [] w = 11 -> e.o = ZN(3) [] OTHER -> TRUE

Rel_X03(e) == e.op \in {"lit_i", "lit_f"}
Ok_X03(e) ==
   CASE e.op = "lit_i" ->      \* static_cast<int64_t>( value ) then integral_to_fixed
           LET n == Wrap(e.a[1]) IN IF ZAbs(n) \preceq MaxIntegral THEN e.o = n ** OneFx ELSE IsNaN(e.o)
     [] e.op = "lit_f" ->      \* floating_point_to_fixed( double ): round half away from zero, NaN outside (-(2^31-1), 2^31-1)
           LET v == FDecode(F64, e.a[1]) IN
           IF ~IsFin(v) \/ ~FLtFin(FFin(1, v[3], v[4]), FFin(1, MaxIntegral, 0)) THEN IsNaN(e.o)
           ELSE ZAbs((e.o ** ZN(2)) -- (ZShl(v[3] ** ZN(v[2]), v[4] + F + 1))) \preceq (Z1 ++ Z1) \/ v[4] + F + 1 < 0
     [] OTHER -> TRUE

(* X04: operands include a NaN sentinel; the verdict is the fidelity (LowSpec predicts the result bit for bit) *)
Rel_X04(e) == \E i \in DOMAIN e.a : e.t[i] = "fx" /\ IsNaN(e.a[i])
=============================================================================
