------------------------------- MODULE FxJudge -------------------------------
(***************************************************************************)
(* Decoding of recorded events and the verdict on one event:               *)
(*    "ok"         HighSpec (the property's clauses) accepts it            *)
(*    <dev id>     rejected, but covered by an enabled named deviation     *)
(*    "violation"  rejected and not covered                                *)
(***************************************************************************)
EXTENDS FxDeviations

CONSTANT Prop          \* the property being decided by this run, e.g. "C01"

UnsignedTags == {"u8", "u16", "u32", "u64", "ull", "f32", "f64", "b", "b6"}
Dec(tag, limbs) == IF tag \in UnsignedTags THEN ZFromLimbs(limbs) ELSE Wrap(ZFromLimbs(limbs))

Event(j) ==
   [op |-> j.op, t |-> j.t,
    a |-> [i \in DOMAIN j.a |-> Dec(j.t[i], j.a[i])],
    o |-> IF j.ot = "b6" THEN [i \in 1..6 |-> ZN(j.o[i])] ELSE Dec(j.ot, j.o),
    ot |-> j.ot, r |-> j.r, site |-> j.site, via |-> j.via, asg |-> j.asg, trap |-> j.trap, ub |-> j.ub,
    hasref |-> "conv" \in DOMAIN j,
    conv |-> IF "conv" \in DOMAIN j THEN Dec("fx", j.conv) ELSE Z0,
    ref |-> IF "ref" \in DOMAIN j THEN Dec("fx", j.ref) ELSE Z0,
    alts |-> IF "alts" \in DOMAIN j THEN [i \in DOMAIN j.alts |-> Dec("fx", j.alts[i])] ELSE <<>>,
    text |-> IF "text" \in DOMAIN j THEN j.text ELSE <<>>,
    ab |-> 0]          \* 1: the build that produced the event runs the abacus sqrt (set by the trace specification from the cfg line)

(* C07 on one event: the call returned normally and no sanitizer report is attributed to it *)
InDomain_C07(e) ==
   /\ \A i \in DOMAIN e.a : e.t[i] = "fx" => (Finite(e.a[i]) \/ IsNaN(e.a[i]))
   /\ (e.op \in {"shl", "shr"} => e.r <= W - 1)
Ok_C07(e) == InDomain_C07(e) => (e.ub = "" /\ e.trap = "")

OkCore(p, pv, e) ==
   CASE p = "C01" -> Ok_C01(e) [] p = "C02" -> Ok_C02(e) [] p = "C03" -> Ok_C03(e)
     [] p = "C04" -> Ok_C04(e) [] p = "C06" -> Ok_C06(e)
     [] p = "C13" -> Ok_C13(e) /\ (pv.op # "none" => Ok_C13_mono(pv, e))
     [] p = "C15" -> Ok_C15(e) [] p = "C18" -> Ok_C18(e)
     [] p = "C07" -> Ok_C07(e)
     [] OTHER -> TRUE

RelCore(p, pv, e) ==
   CASE p = "C01" -> Rel_C01(e) [] p = "C02" -> Rel_C02(e) [] p = "C03" -> Rel_C03(e)
     [] p = "C04" -> Rel_C04(e) [] p = "C06" -> Rel_C06(e) [] p = "C13" -> Rel_C13(e)
     [] p = "C15" -> Rel_C15(e) [] p = "C18" -> Rel_C18(e) [] p = "C07" -> InDomain_C07(e)
     [] OTHER -> FALSE

Judge(p, pv, e) ==
   IF OkCore(p, pv, e) THEN "ok"
   ELSE IF \E d \in EnabledDeviations : Covers(d, p, e)
        THEN CHOOSE d \in EnabledDeviations : Covers(d, p, e)
        ELSE "violation"

Fidelity(e) == IF ~HasLow(e) THEN "nolow" ELSE IF AsLow(e) THEN "same" ELSE "differs"

=============================================================================
