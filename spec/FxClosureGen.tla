----------------------------- MODULE FxClosureGen -----------------------------
(***************************************************************************)
(* E2 for X05: behaviours of the one-register machine of MC_Closure at     *)
(* FULL width, generated under tlc -simulate and written as programs.      *)
(* A behaviour loads a start value from the value space and then applies   *)
(* up to MaxSteps random operations, each to the LATEST result (the second *)
(* operand of a binary operation is a constant or an earlier register),    *)
(* each into a fresh register.  The real library replays the program       *)
(* (harness/fxdrv.cc, "ins" lines), FxTrace binds the data flow and judges *)
(* every step: the call returned, and the result is LowSpec's.             *)
(***************************************************************************)
EXTENDS FxLaws, Json, CSV, IOUtils, TLC, Randomization

VARIABLES ins, nr, done
vars == <<ins, nr, done>>

Enc(x) == ZToLimbs(WrapU(x), 4)
Starts == {Z0, Z1, ZN(-1), OneFx, ZNeg(OneFx), ZN(98304), ZN(-32768), ZN(12345678), P(31), ZNeg(P(31)) ++ Z1, P(40), P(46), P(47), ZNeg(P(47)), P(48) -- Z1,
           P(55), P(62), ZNeg(P(62)), Maxv, Lowestv, Lowestv ++ ZN(65535), Maxv -- OneFx, Maxv -- ZN(65535), ZShr(Maxv, 1), ZISqrt(P(63)), NaNv, NegNaN}
KFx == {Z0, Z1, ZN(-1), OneFx, ZNeg(OneFx), ZN(3) ** OneFx, P(31), P(47), Maxv, Lowestv, NaNv, NegNaN}
Ns == {ZN(k) : k \in {1, 2, 3, 7, 65536, -1, -2, -7}} \cup {P(33), ZNeg(P(33)), P(63) -- Z1, ZNeg(P(63))}
Tags == {"i8", "i16", "i32", "i64", "ll", "u8", "u32", "u64"}
NsOf(tg) == {n \in Ns : InT(TypeOf(tg), n)}
Shs == {-1, 0, 1, 15, 16, 17, 31, 32, 47, 62, 63}
MaxSteps == 10

R(S) == RandomElement(S)
IR(op, d, x, r) == [op |-> op, t |-> <<"fx">>, d |-> d, s |-> <<x>>, imm |-> <<Z0>>, r |-> r]
Init == ins = <<>> /\ nr = 0 /\ done = FALSE
Load == nr = 0 /\ ins' = <<Ld(1, R(Starts))>> /\ nr' = 1 /\ UNCHANGED done
Un   == ~done /\ nr >= 1 /\ nr <= MaxSteps
        /\ ins' = Append(ins, I(R({"neg", "abs", "floor", "ceil", "sqrt_abacus"}), <<"fx">>, nr + 1, <<nr>>, <<Z0>>)) /\ nr' = nr + 1 /\ UNCHANGED done
BinK == ~done /\ nr >= 1 /\ nr <= MaxSteps
        /\ \E k \in RandomSubset(1, KFx) : \E sw \in RandomSubset(1, {0, 1}) :
              ins' = Append(ins, IF sw = 0 THEN I(R({"add", "sub", "mul", "div", "and"}), FF, nr + 1, <<nr, 0>>, <<Z0, k>>)
                                          ELSE I(R({"sub", "div"}), FF, nr + 1, <<0, nr>>, <<k, Z0>>))
        /\ nr' = nr + 1 /\ UNCHANGED done
BinR == ~done /\ nr >= 2 /\ nr <= MaxSteps
        /\ ins' = Append(ins, RR2(R({"add", "sub", "mul", "div", "and"}), nr + 1, nr, R(1..nr))) /\ nr' = nr + 1 /\ UNCHANGED done
Sc   == ~done /\ nr >= 1 /\ nr <= MaxSteps
        /\ \E tg \in RandomSubset(1, Tags) : \E n \in RandomSubset(1, NsOf(tg)) :
              ins' = Append(ins, I(R({"mul", "div"}), FI(tg), nr + 1, <<nr, 0>>, <<Z0, n>>))
        /\ nr' = nr + 1 /\ UNCHANGED done
Sh   == ~done /\ nr >= 1 /\ nr <= MaxSteps
        /\ ins' = Append(ins, IR(R({"shl", "shr"}), nr + 1, nr, R(Shs))) /\ nr' = nr + 1 /\ UNCHANGED done
Finish == ~done /\ nr >= 3 /\ done' = TRUE /\ UNCHANGED <<ins, nr>>
Next == Load \/ Un \/ BinK \/ BinR \/ Sc \/ Sh \/ Finish
Spec == Init /\ [][Next]_vars
InsJ(i) == IF "r" \in DOMAIN i
           THEN [op |-> i.op, t |-> i.t, a |-> [q \in DOMAIN i.s |-> Enc(i.imm[q])], d |-> i.d, s |-> i.s, r |-> i.r]
           ELSE [op |-> i.op, t |-> i.t, a |-> [q \in DOMAIN i.s |-> Enc(i.imm[q])], d |-> i.d, s |-> i.s]
Emit == done => CSVWrite("%1$s", <<ToJson([prog |-> "closure", regs |-> <<1, 1, 1>>, f |-> nr + 1, n |-> Enc(Z0), tag |-> "i64",
                                          ins |-> [i \in 1..Len(ins) |-> InsJ(ins[i])]])>>, IOEnv.FX_PROGS)
=============================================================================
