-------------------------------- MODULE FxGen --------------------------------
(***************************************************************************)
(* E2: generation of inputs and programs for replay on the real code.      *)
(* Everything here is derived from the specification's own case analysis:  *)
(* the landmark raws are the constants that occur in FxAlgo / FxContract   *)
(* (powers of two at the widths the code uses, the limits, the NaN         *)
(* sentinels, pi constants, sqrt(2^63)), and for every landmark a the      *)
(* second operand is additionally SOLVED so that the exact result sits on  *)
(* each boundary of the contract +-1 (Max, -Max, -2^63 for sums; 2^63 and  *)
(* Max*2^16 for raw products; 2^47 for dividends).                         *)
(* Output: ndjson job lines for harness/fxdrv.cc (64-bit words as four     *)
(* base-2^16 limbs).  "rand" and "sweep" jobs are descriptors the driver   *)
(* expands itself (seeded).                                                *)
(***************************************************************************)
EXTENDS FxParams, FiniteSets, SequencesExt, Json, IOUtils, TLC

Tier == IOEnv.FX_TIER            \* "quick" | "thorough"
Seed == atoi(IOEnv.FX_SEED)
Thorough == Tier = "thorough"

Enc(x) == ZToLimbs(WrapU(x), 4)
PM(S) == S \cup {ZNeg(x) : x \in S}
Near(x, d) == {x ++ ZN(i) : i \in (-d)..d}

KsQuick == {16, 31, 32, 47, 62}
KsAll   == {1, 8, 15, 16, 17, 24, 30, 31, 32, 33, 40, 46, 47, 48, 55, 61, 62}
Ks == IF Thorough THEN KsAll ELSE KsQuick

Pows == UNION {Near(P(k), 1) : k \in Ks}
Consts == {ZN(205887), ZN(102944), ZISqrt(P(63)), ZISqrt(P(63)) ++ Z1, ZN(65535) ** ZN(65536)}
Limits == {Maxv, Maxv -- Z1, Maxv -- ZN(65535), Maxv -- ZN(65536), MaxIntegral ** OneFx, (MaxIntegral ** OneFx) ++ Z1,
           (MaxIntegral ** OneFx) -- Z1, DomLim -- Z1, DomLim}
Small == {Z0, Z1, ZN(2), ZN(3), ZN(65535), ZN(65536), ZN(65537), ZN(98304)}
LmFinite == {x \in PM(Small \cup Pows \cup Consts \cup Limits) : Finite(x)}
LmAll == LmFinite \cup {NaNv, NegNaN}
LmRaw == LmAll \cup {IntMin}

Call(op, t, a) == [k |-> "call", op |-> op, t |-> t, a |-> [i \in DOMAIN a |-> Enc(a[i])], asg |-> 0, via |-> "", ot |-> "fx"]
CallAsg(op, t, a) == [Call(op, t, a) EXCEPT !.asg = 1]
CallR(op, x, r) == [k |-> "call", op |-> op, t |-> <<"fx">>, a |-> <<Enc(x)>>, r |-> r, asg |-> 0, via |-> "", ot |-> "fx"]
CallVia(op, t, a, via, ot) == [Call(op, t, a) EXCEPT !.via = via, !.ot = ot]
Rand(op, t, n, sd) == [k |-> "rand", op |-> op, t |-> t, n |-> n, seed |-> sd, asg |-> 0, via |-> "", ot |-> "fx"]
RandR(op, t, n, sd) == [k |-> "rand", op |-> op, t |-> t, n |-> n, seed |-> sd, r |-> 0, asg |-> 0, via |-> "", ot |-> "fx"]
RandM(op, t, n, sd, mode) == [k |-> "rand", op |-> op, t |-> t, n |-> n, seed |-> sd, mode |-> mode, asg |-> 0, via |-> "", ot |-> "fx"]
RandB(op, t, n, sd, mb) == [k |-> "rand", op |-> op, t |-> t, n |-> n, seed |-> sd, maxbits |-> mb, asg |-> 0, via |-> "", ot |-> "fx"]
Sweep(op, tag, lo, hi, step) == [k |-> "sweep", op |-> op, tag |-> tag, t |-> <<tag>>, lo |-> Enc(lo), hi |-> Enc(hi), step |-> Enc(ZN(step)), asg |-> 0, via |-> "", ot |-> "fx"]
SweepZ(op, tag, lo, hi, stepz) == [Sweep(op, tag, lo, hi, 1) EXCEPT !.step = Enc(stepz)]
SweepVia(op, tag, lo, hi, step, via, ot) == [Sweep(op, tag, lo, hi, step) EXCEPT !.via = via, !.ot = ot]

S2Q(S) == SetToSeq(S)
FlatSeq(ss) == FlattenSeq(ss)

(* ---- C01: sums and differences -------------------------------------------------------------------- *)
SumTargets == {Maxv, Lowestv, IntMin, NaNv, IntMin -- Z1, P(W - 1)}
SolveAdd(a) == {x \in UNION {Near(tg -- a, 1) : tg \in SumTargets} : Finite(x)}
SolveSub(a) == {x \in UNION {Near(a -- tg, 1) : tg \in SumTargets} : Finite(x)}
PairsAdd == {<<a, b>> : a \in LmFinite, b \in LmFinite} \cup UNION {{<<a, b>> : b \in SolveAdd(a)} : a \in LmFinite}
PairsSub == {<<a, b>> : a \in LmFinite, b \in LmFinite} \cup UNION {{<<a, b>> : b \in SolveSub(a)} : a \in LmFinite}
NR(q, t) == IF Thorough THEN t ELSE q
Jobs_C01 ==
   S2Q({Call("add", <<"fx", "fx">>, p) : p \in PairsAdd}) \o S2Q({CallAsg("add", <<"fx", "fx">>, p) : p \in PairsAdd})
   \o S2Q({Call("sub", <<"fx", "fx">>, p) : p \in PairsSub}) \o S2Q({CallAsg("sub", <<"fx", "fx">>, p) : p \in PairsSub})
   \o <<RandM("add", <<"fx", "fx">>, NR(4000, 100000), Seed + 5, "related"), RandM("sub", <<"fx", "fx">>, NR(4000, 100000), Seed + 6, "related"),
        [RandM("add", <<"fx", "fx">>, NR(3000, 100000), Seed + 7, "related") EXCEPT !.asg = 1], [RandM("sub", <<"fx", "fx">>, NR(2000, 50000), Seed + 8, "related") EXCEPT !.asg = 1],
        Rand("add", <<"fx", "fx">>, NR(12000, 400000), Seed), Rand("sub", <<"fx", "fx">>, NR(12000, 400000), Seed + 1),
        [Rand("add", <<"fx", "fx">>, NR(3000, 50000), Seed + 2) EXCEPT !.asg = 1],
        [Rand("sub", <<"fx", "fx">>, NR(3000, 50000), Seed + 3) EXCEPT !.asg = 1]>>

(* ---- C02: products ------------------------------------------------------------------------------- *)
MulGuardG == P(W - 1) -- P(F)
ProdTargets == {P(W - 1), ZNeg(P(W - 1)), Maxv ** OneFx, Lowestv ** OneFx, MulGuardG, ZNeg(MulGuardG)}
SolveMul(a) == IF a = Z0 THEN {} ELSE {x \in UNION {Near(ZTDiv(tg, a), 1) : tg \in ProdTargets} : Finite(x)}
PairsMul == {<<a, b>> : a \in LmFinite, b \in LmFinite} \cup UNION {{<<a, b>> : b \in SolveMul(a)} : a \in LmFinite}
IntTagsG == <<"i8", "u8", "i16", "u16", "i32", "u32", "i64", "u64", "ll", "ull">>
NT == Len(IntTagsG)
TypeG(tag) ==
   CASE tag = "i8" -> [bits |-> 8, signed |-> TRUE]   [] tag = "u8" -> [bits |-> 8, signed |-> FALSE]
     [] tag = "i16" -> [bits |-> 16, signed |-> TRUE] [] tag = "u16" -> [bits |-> 16, signed |-> FALSE]
     [] tag = "i32" -> [bits |-> 32, signed |-> TRUE] [] tag = "u32" -> [bits |-> 32, signed |-> FALSE]
     [] tag = "i64" -> [bits |-> 64, signed |-> TRUE] [] tag = "u64" -> [bits |-> 64, signed |-> FALSE]
     [] tag = "ll" -> [bits |-> 64, signed |-> TRUE]  [] tag = "ull" -> [bits |-> 64, signed |-> FALSE]
(* landmark values of an integral type *)
IntLm(tag) ==
   LET t == TypeG(tag)
       wrapk == {ZN(205887), ZN(180), ZN(65536), ZN(360), ZN(411774)}
       wraps == UNION {{(P(64) // q) ++ ZN(d), (P(63) // q) ++ ZN(d), (P(32) // q) ++ ZN(d), (P(31) // q) ++ ZN(d)} : q \in wrapk, d \in {0, 1, 2, 90, 360}}
       c == wraps \cup {ZN(4), ZN(10), ZN(65536), P(20), P(30), Z0, Z1, ZN(-1), ZN(2), ZN(-2), ZN(3), ZN(7), ZN(-7), ZN(100), ZN(127), ZN(128), ZN(255), ZN(256), ZN(360), ZN(-360),
             TMin(t), TMin(t) ++ Z1, TMax(t), TMax(t) -- Z1, MaxIntegral, MaxIntegral ++ Z1, MaxIntegral -- Z1,
             ZNeg(MaxIntegral), ZNeg(MaxIntegral) -- Z1, P(15), P(16), P(31), P(32), P(32) -- Z1, P(47), P(62), P(63), P(63) ++ Z1,
             P(63) -- Z1, ZNeg(P(31)), ZNeg(P(47)), P(64) -- Z1, P(64) -- ZN(2)}
   IN {x \in c : InT(t, x)}
FxForScalar == {x \in LmFinite : TRUE}
Jobs_C02 ==
   S2Q({Call("mul", <<"fx", "fx">>, p) : p \in PairsMul}) \o S2Q({CallAsg("mul", <<"fx", "fx">>, p) : p \in PairsMul})
   \o FlatSeq([i \in 1..NT |->
         S2Q({Call("mul", <<"fx", IntTagsG[i]>>, <<a, n>>) : a \in FxForScalar, n \in IntLm(IntTagsG[i])})
         \o S2Q({Call("mul", <<IntTagsG[i], "fx">>, <<n, a>>) : a \in FxForScalar, n \in IntLm(IntTagsG[i])})
         \o <<Rand("mul", <<"fx", IntTagsG[i]>>, NR(1500, 40000), Seed + 10 + i), Rand("mul", <<IntTagsG[i], "fx">>, NR(1500, 40000), Seed + 20 + i)>>])
   \o <<RandM("mul", <<"fx", "fx">>, NR(4000, 100000), Seed + 2, "related"), [RandM("mul", <<"fx", "fx">>, NR(2000, 50000), Seed + 1, "related") EXCEPT !.asg = 1], RandM("mul", <<"fx", "fx">>, NR(6000, 300000), Seed + 3, "prodedge"), Rand("mul", <<"fx", "fx">>, NR(6000, 300000), Seed + 4), RandB("mul", <<"fx", "fx">>, NR(10000, 300000), Seed + 5, 34),
        RandB("mul", <<"fx", "fx">>, NR(5000, 100000), Seed + 6, 48)>>

(* ---- C03: quotients ------------------------------------------------------------------------------ *)
DivB == PM({Z1, ZN(2), ZN(3), ZN(65535), ZN(65536), ZN(65537), P(31), P(32), P(46), P(47), P(47) -- Z1, P(62), Maxv}) \cup {Z0}
DivA == LmFinite \cup PM(UNION {Near(P(k), 2) : k \in {31, 46, 47}})
PairsDiv == {<<a, b>> : a \in DivA, b \in DivB \cup (IF Thorough THEN LmFinite ELSE {})}
(* operands outside the value space (NaN sentinels, the lowest raw word): only "the call returns" is demanded of them *)
RawOdd == {NaNv, NegNaN, IntMin, IntMin ++ ZN(65536)}
PairsDivOdd == {<<a, b>> : a \in RawOdd, b \in PM({Z1, ZN(2), ZN(65536), Maxv}) \cup {Z0} \cup RawOdd}
                  \cup {<<a, b>> : a \in PM({Z1, ZN(65536), P(47), Maxv}) \cup {Z0}, b \in RawOdd}
Jobs_C03 ==
   S2Q({Call("div", <<"fx", "fx">>, p) : p \in PairsDiv}) \o S2Q({CallAsg("div", <<"fx", "fx">>, p) : p \in PairsDiv})
   \o S2Q({Call("div", <<"fx", "fx">>, p) : p \in PairsDivOdd})
   \o FlatSeq([i \in 1..NT |-> S2Q({Call("div", <<"fx", IntTagsG[i]>>, <<a, n>>) : a \in RawOdd, n \in IntLm(IntTagsG[i])})])
   \o FlatSeq([i \in 1..NT |->
         S2Q({Call("div", <<"fx", IntTagsG[i]>>, <<a, n>>) : a \in FxForScalar, n \in IntLm(IntTagsG[i])})
         \o <<Rand("div", <<"fx", IntTagsG[i]>>, NR(1500, 40000), Seed + 30 + i)>>])
   \o <<RandM("div", <<"fx", "fx">>, NR(4000, 100000), Seed + 6, "related"), [RandM("div", <<"fx", "fx">>, NR(2000, 50000), Seed + 5, "related") EXCEPT !.asg = 1], Rand("div", <<"fx", "fx">>, NR(10000, 300000), Seed + 7), RandB("div", <<"fx", "fx">>, NR(10000, 300000), Seed + 8, 47),
        RandB("div", <<"fx", "fx">>, NR(5000, 100000), Seed + 9, 33)>>

(* ---- C04: integer <-> fixed ---------------------------------------------------------------------- *)
Vias == <<"ctor", "a2f", "make", "i2f">>
F2IRaws == LmAll \cup UNION {Near(n ** OneFx, 1) \cup {(n ** OneFx) ++ ZN(65535), (n ** OneFx) -- ZN(65535)} :
                              n \in PM({Z0, Z1, ZN(127), ZN(128), ZN(129), ZN(255), ZN(256), ZN(32767), ZN(32768), ZN(65535), ZN(65536),
                                        P(31) -- Z1, P(31), P(32) -- Z1, P(32), P(46)})}
Jobs_C04 ==
   FlatSeq([i \in 1..NT |-> FlatSeq([v \in 1..4 |->
         (IF TypeG(IntTagsG[i]).bits <= 16
          THEN <<SweepVia("i2f", IntTagsG[i], TMin(TypeG(IntTagsG[i])), TMax(TypeG(IntTagsG[i])),
                          IF Thorough \/ TypeG(IntTagsG[i]).bits = 8 THEN 1 ELSE 7, Vias[v], "fx")>>
          ELSE <<>>)
         \o S2Q({CallVia("i2f", <<IntTagsG[i]>>, <<n>>, Vias[v], "fx") : n \in IntLm(IntTagsG[i])})
         \o <<[Rand("i2f", <<IntTagsG[i]>>, NR(500, 20000), Seed + 40 + i) EXCEPT !.via = Vias[v]]>>])])
   \o FlatSeq([i \in 1..NT |-> FlatSeq([v \in 1..3 |->
         S2Q({CallVia("f2i", <<"fx">>, <<x>>, <<"f2i", "f2a", "cast">>[v], IntTagsG[i]) : x \in {y \in F2IRaws : Finite(y)}})
         \o <<[Rand("f2i", <<"fx">>, NR(500, 20000), Seed + 50 + i) EXCEPT !.via = <<"f2i", "f2a", "cast">>[v], !.ot = IntTagsG[i]]>>])])
   \o FlatSeq([i \in 1..NT |->
         S2Q({Call(op, <<"fx", IntTagsG[i]>>, <<Z0, n>>) : op \in {"add", "sub"}, n \in IntLm(IntTagsG[i])})
         \o S2Q({Call(op, <<IntTagsG[i], "fx">>, <<n, Z0>>) : op \in {"add", "sub"}, n \in IntLm(IntTagsG[i])})])

(* ---- C06: ordering, isnan, neg, abs -------------------------------------------------------------- *)
Jobs_C06 ==
   S2Q({Call("cmp", <<"fx", "fx">>, <<a, b>>) : a \in LmRaw, b \in LmRaw})
   \o S2Q({Call(op, <<"fx">>, <<a>>) : op \in {"isnan", "neg", "abs"}, a \in LmAll})
   \o <<RandM("cmp", <<"fx", "fx">>, NR(6000, 200000), Seed + 59, "related"), Rand("cmp", <<"fx", "fx">>, NR(8000, 300000), Seed + 60), Rand("isnan", <<"fx">>, NR(5000, 100000), Seed + 61),
        Rand("neg", <<"fx">>, NR(5000, 100000), Seed + 62), Rand("abs", <<"fx">>, NR(5000, 100000), Seed + 63),
        Sweep("isnan", "fx", Maxv -- ZN(300), NaNv, 1), Sweep("isnan", "fx", NegNaN, Lowestv ++ ZN(300), 1),
        Sweep("abs", "fx", ZN(-300), ZN(300), 1), Sweep("neg", "fx", ZN(-300), ZN(300), 1)>>

(* ---- C15: floor, ceil ----------------------------------------------------------------------------- *)
C15Raws == {x \in LmFinite \cup UNION {Near(n ** OneFx, 2) : n \in PM({Z1, ZN(2), ZN(1000), P(31) -- Z1, P(46), P(47) -- ZN(2), P(47) -- Z1, P(47)})} : Finite(x)}
Jobs_C15 ==
   S2Q({Call(op, <<"fx">>, <<a>>) : op \in {"floor", "ceil"}, a \in C15Raws})
   \o <<Sweep("floor", "fx", ZNeg(P(18)), P(18), NR(11, 1)), Sweep("ceil", "fx", ZNeg(P(18)), P(18), NR(11, 1)),
        Sweep("floor", "fx", ZNeg(P(17)) -- ZN(40), ZNeg(P(17)) ++ ZN(40), 1), Sweep("ceil", "fx", ZN(-70000), ZN(70000), NR(3, 1)),
        Sweep("floor", "fx", ZNeg(P(20)), P(20), 65536), Sweep("ceil", "fx", ZNeg(P(20)), P(20), 65536),
        Sweep("ceil", "fx", ZNeg(P(26)), P(26), 32768),
        Rand("floor", <<"fx">>, NR(5000, 200000), Seed + 70), Rand("ceil", <<"fx">>, NR(5000, 200000), Seed + 71)>>

(* ---- C18: shifts, & ------------------------------------------------------------------------------- *)
ShiftCounts == {-2147483647 - 1, -2147483647, -65536, -64, -2, -1} \cup (0..63)
Jobs_C18 ==
   S2Q({CallR(op, x, r) : op \in {"shl", "shr"}, x \in LmFinite, r \in ShiftCounts})
   \o S2Q({Call("and", <<"fx", "fx">>, <<a, b>>) : a \in LmRaw, b \in LmRaw})
   \o <<RandR("shl", <<"fx">>, NR(10000, 300000), Seed + 80), RandR("shr", <<"fx">>, NR(10000, 300000), Seed + 81),
        Rand("and", <<"fx", "fx">>, NR(5000, 200000), Seed + 82), RandM("and", <<"fx", "fx">>, NR(3000, 100000), Seed + 83, "related")>>

(* ---- C13: square root ----------------------------------------------------------------------------- *)
SqrtOpsG == <<"sqrt_abacus", "sqrt_std", "sqrt">>
SqLm == {Z0, Z1, ZN(2), ZN(3), ZN(4), ZN(65535), ZN(65536), ZN(65537), DomLim -- Z1, DomLim -- ZN(2), DomLim, DomLim ++ Z1, P(48) -- Z1, P(48),
         ZN(-1), ZN(-65536), Lowestv, NegNaN, Maxv, NaNv}
         \cup UNION {Near(P(k), 2) : k \in 2..46}
         \cup UNION {Near(ZShr(n ** n, F), 1) : n \in {ZN(46340), ZN(46341), ZN(65535), ZN(1000001), P(30) -- Z1, P(31) -- Z1, ZISqrt(P(63))}}
Jobs_C13 ==
   FlatSeq([i \in 1..3 |->
      S2Q({Call(SqrtOpsG[i], <<"fx">>, <<x>>) : x \in SqLm})
      \o <<Sweep(SqrtOpsG[i], "fx", Z0, P(20), NR(37, 1)), Sweep(SqrtOpsG[i], "fx", Z0, P(12), 1), Sweep(SqrtOpsG[i], "fx", P(32), P(32) ++ P(16), NR(29, 1)),
           Sweep(SqrtOpsG[i], "fx", P(46) -- P(12), P(46) ++ P(12), NR(7, 1)),
           Sweep(SqrtOpsG[i], "fx", DomLim -- P(14), DomLim -- Z1, NR(13, 1)),
           SweepZ(SqrtOpsG[i], "fx", Z0, DomLim -- Z1, NR(ZN(17179869) ** ZN(4096001), ZN(268435) ** ZN(1024001))),
           RandB(SqrtOpsG[i], <<"fx">>, NR(5000, 300000), Seed + 90 + i, 47)>>])

JobsFor(p) ==
   CASE p = "C01" -> Jobs_C01 [] p = "C02" -> Jobs_C02 [] p = "C03" -> Jobs_C03 [] p = "C04" -> Jobs_C04
     [] p = "C06" -> Jobs_C06 [] p = "C13" -> Jobs_C13 [] p = "C15" -> Jobs_C15 [] p = "C18" -> Jobs_C18

=============================================================================
