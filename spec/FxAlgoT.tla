------------------------------- MODULE FxAlgoT -------------------------------
(***************************************************************************)
(* LowSpec, elementary functions: a line-by-line transcription of sin,     *)
(* cos, tan, atan, atan2, asin, acos, hypot and the degree helpers of      *)
(* fixed_lib/include/fixedmath/math.h (working tree, after the fix:        *)
(* commits) over the checked primitives of FxPrim.  (W,F,IB) = (64,16,31)  *)
(* only: the constants are those of numbers.h and of the function bodies.  *)
(* ab = 1: sqrt() is the abacus algorithm in the build that produced the   *)
(* event, ab = 0: std::sqrt.                                               *)
(***************************************************************************)
EXTENDS FxAlgoF

phi        == ZN(205887)
fixpidiv2  == ZN(102944)
fixpidiv4  == ZN(51472)
phi_half   == fixed_division_by_scalar(phi, [bits |-> 32, signed |-> TRUE], ZN(2))      \* phi/2 = 102943
two_phi    == fixed_multiply_scalar(phi, [bits |-> 32, signed |-> TRUE], ZN(2))         \* 2*phi = 411774

(* detail/common.h: mul_<p>, div_<p>, fix_<p> on raw fixed_internal *)
mul_(p, x, y) == SShr(SMul(x, y), p)
div_(p, x, y) == SDiv(SShl(x, p), y)
fix_(p, x)    == SShl(x, p)
PZ(a)         == ZIsPoison(a)
Lt(a, b)      == a \prec b           \* callers guard poison first
sqrt_sel(ab, x) == IF ab = 1 THEN sqrt_abacus(x) ELSE sqrt_std_math(x)

(* math.h: detail::sin_range *)
sin_range(rad) ==
   IF PZ(rad) THEN ZPoison
   ELSE IF (rad \prec ZNeg(phi_half)) \/ (fixed_additioni(phi, phi_half) \prec rad)
        THEN LET r1 == SSub(SRem(SAdd(phi_half, SRem(rad, two_phi)), two_phi), phi_half) IN
             IF PZ(r1) THEN ZPoison ELSE IF r1 \prec ZNeg(phi_half) THEN SAdd(r1, two_phi) ELSE r1
        ELSE rad
(* math.h: sin *)
sin_(rad) ==
   LET r0 == sin_range(rad) IN
   IF PZ(r0) THEN ZPoison
   ELSE LET x    == IF phi_half \prec r0 THEN fixed_substracti(phi, r0) ELSE r0
            x2   == mul_(16, x, x)
            c42  == ZShl(ZN(42), 16)
            c105 == ZShl(ZN(105), 35)
            c315 == ZShl(ZN(315), 16)
            in1  == SSub(c105, SMul(x2, SSub(c42, x2)))
            in2  == SSub(c315, mul_(36, x2, in1))
        IN SDiv(mul_(16, x, in2), ZN(315))
(* math.h: cos *)
cos_(rad) == sin_(fixed_additioni(fixpidiv2, rad))

(* math.h: detail::tan_<prec_> *)
tan_poly(p, x) ==
   LET x2 == mul_(p, x, x)
       y0 == SAdd(fix_(p, ZN(21844)), SDiv(SMul(ZN(929569), x2), ZN(105)))
       y1 == SAdd(fix_(p, ZN(1382)), SDiv(mul_(p, x2, y0), ZN(39)))
       y2 == SAdd(fix_(p, ZN(62)), SDiv(mul_(p, x2, y1), ZN(55)))
       y3 == SAdd(fix_(p, ZN(17)), SDiv(mul_(p, x2, y2), ZN(9)))
       y4 == SAdd(fix_(p, ZN(2)), SDiv(mul_(p, x2, y3), ZN(21)))
       y5 == SAdd(fix_(p, ZN(1)), SDiv(mul_(p, x2, y4), ZN(5)))
       y6 == SAdd(fix_(p, ZN(1)), SDiv(mul_(p, x2, y5), ZN(3)))
   IN mul_(p, x, y6)
(* math.h: tan *)
tan_fn(rad) ==
   IF PZ(rad) THEN ZPoison
   ELSE LET sgn == rad \prec Z0
            x0  == IF sgn THEN SNeg(rad) ELSE rad
        IN IF PZ(x0) THEN ZPoison
           ELSE LET x == IF phi_half \prec x0 THEN SRem(x0, phi) ELSE x0            \* detail::tan_range
                IN IF x = fixpidiv2 THEN quiet_NaN_result
                   ELSE LET res == IF x \preceq fixpidiv4 THEN SShr(tan_poly(20, SShl(x, 4)), 4)
                                   ELSE IF (fixpidiv2 ++ fixpidiv4) \preceq x THEN SNeg(SShr(tan_poly(20, SShl(SSub(phi, x), 4)), 4))
                                   ELSE div_(16, OneFx, SShr(tan_poly(20, SSub(SShl(fixpidiv2, 4), SShl(x, 4))), 4))
                        IN IF sgn THEN SNeg(res) ELSE res

(* math.h: detail::atan<prec_> *)
atan_poly(p, x) ==
   LET t  == mul_(p, x, x)
       c9 == ZTDiv(ZShl(ZN(11), p), ZN(9))
       c7 == ZTDiv(ZShl(ZN(11), p), ZN(7))
       c5 == ZTDiv(ZShl(ZN(11), p), ZN(5))
       c3 == ZTDiv(ZShl(ZN(11), p), ZN(3))
       c1 == ZShl(ZN(11), p)
       y1 == SSub(c9, t)
       y2 == SAdd(ZNeg(c7), mul_(p, t, y1))
       y3 == SAdd(c5, mul_(p, t, y2))
       y4 == SAdd(ZNeg(c3), mul_(p, t, y3))
       y5 == SAdd(c1, mul_(p, t, y4))
   IN SDiv(mul_(p, x, y5), ZN(11))
atan_sum(p, atanc, c, x) == SAdd(atanc, atan_poly(p, div_(p, SSub(x, c), SAdd(fix_(p, Z1), mul_(p, x, c)))))
(* math.h: atan *)
atan_fn(value) ==
   IF PZ(value) THEN ZPoison
   ELSE LET sgn == value \prec Z0
            x   == IF sgn THEN SNeg(value) ELSE value
        IN IF PZ(x) THEN ZPoison
           ELSE LET res == IF x \prec ZN(28672) THEN atan_poly(16, x)
                           ELSE IF x \prec ZN(45056) THEN atan_sum(16, ZN(27028), ZN(28672), x)
                           ELSE IF x \prec ZN(77824) THEN atan_sum(16, ZN(39472), ZN(45056), x)
                           ELSE IF x \prec ZN(159744) THEN atan_sum(16, ZN(57076), ZN(77824), x)
                           ELSE IF x \prec P(32) THEN atan_sum(16, ZN(77429), ZN(159744), x)
                           ELSE fixpidiv2
                IN IF sgn THEN SNeg(res) ELSE res
(* math.h: atan2 *)
atan2_fn(y, x) ==
   IF PZ(y) \/ PZ(x) THEN ZPoison
   ELSE IF Z0 \prec x THEN atan_fn(fixed_divisionf(y, x))
   ELSE IF x \prec Z0 THEN (IF Z0 \preceq y THEN fixed_additioni(atan_fn(fixed_divisionf(y, x)), phi)
                            ELSE fixed_substracti(atan_fn(fixed_divisionf(y, x)), phi))
   ELSE IF Z0 \prec y THEN fixpidiv2 ELSE IF y \prec Z0 THEN ZNeg(fixpidiv2) ELSE quiet_NaN_result

(* math.h: detail::asin<prec_> (the "#if 1" variant) *)
asin_poly(p, x) ==
   LET x2 == mul_(p, x, x)
       k(n, d) == ZTDiv(ZShl(ZN(n), p), ZN(d))
       y6  == SAdd(k(35, 9) ++ Z1, mul_(p + 1, x2, k(63, 11) ++ Z1))
       y7  == SAdd(k(5, 7) ++ Z1, mul_(p + 3, x2, y6))
       y8  == SAdd(k(3, 5) ++ Z1, mul_(p + 1, x2, y7))
       y9  == SAdd(k(1, 3), mul_(p + 2, x2, y8))
       y10 == SAdd(ZShl(Z1, p), mul_(p + 1, x2, y9))
   IN mul_(p, x, y10)
c060 == ZN(39322)                  \* (0.60_fix).v
(* math.h: asin *)
asin_fn(ab, xv) ==
   IF PZ(xv) THEN ZPoison
   ELSE LET sgn == xv \prec Z0
            x   == IF sgn THEN SNeg(xv) ELSE xv
        IN IF PZ(x) THEN ZPoison
           ELSE IF x \preceq OneFx
                THEN LET res == IF x \preceq c060 THEN SShr(asin_poly(20, SShl(x, 4)), 4)
                                ELSE LET sqr == sqrt_sel(ab, SShr(SSub(OneFx, x), 1)) IN
                                     SSub(fixpidiv2, SShr(asin_poly(20, SShl(sqr, 4)), 3))
                     IN IF sgn THEN SNeg(res) ELSE res
                ELSE quiet_NaN_result
(* math.h: acos *)
acos_fn(ab, x) ==
   IF PZ(x) THEN ZPoison
   ELSE IF (ZNeg(OneFx) \preceq x) /\ (x \preceq OneFx) THEN SSub(phi_half, asin_fn(ab, x)) ELSE quiet_NaN_result

(* math.h: hypot *)
hypot_fn(ab, lh0, rh0) ==
   IF PZ(lh0) \/ PZ(rh0) THEN ZPoison
   ELSE LET lh == IF lh0 \prec Z0 THEN SNeg(lh0) ELSE lh0
            rh == IF rh0 \prec Z0 THEN SNeg(rh0) ELSE rh0
        IN IF PZ(lh) \/ PZ(rh) THEN ZPoison
           ELSE LET a == ToU(lh)  b == ToU(rh)
                    uhi == ZMax(a, b)  ulo == ZMin(a, b)
                    sumsq(h, l) == ToS(UShr(UAdd(UMul(h, h), UMul(l, l)), 16))
                IN IF uhi = Z0 THEN Z0
                   ELSE IF P(30) \preceq uhi
                        THEN LET rsh == 48 - Clz(uhi) IN SShl(sqrt_sel(ab, sumsq(UShr(uhi, rsh), UShr(ulo, rsh))), rsh)
                   ELSE IF ulo \prec P(16)
                        THEN LET c   == Clz(uhi)
                                 l0  == (IF c - 30 > 0 THEN c - 30 ELSE 0) \div 2
                                 lsh == IF l0 <= c - 33 THEN l0 ELSE c - 33
                             IN SShr(sqrt_sel(ab, sumsq(UShl(uhi, lsh), UShl(ulo, lsh))), lsh)
                   ELSE sqrt_sel(ab, sumsq(uhi, ulo))

(* math.h: angle_to_radians, sin_angle, cos_angle, tan_angle *)
I32T == [bits |-> 32, signed |-> TRUE]
angle_to_radians(t, angle) ==
   IF (Z0 \preceq angle) /\ (angle \preceq ZN(360))
   THEN fixed_division_by_scalar(fixed_multiplyi(integral_to_fixed(t, angle), phi), I32T, ZN(180))
   ELSE quiet_NaN_result
(* angle * phi / 180 for the carrier types of C20 *)
angle_rad_int(t, angle) == fixed_division_by_scalar(fixed_multiply_scalar(phi, t, angle), I32T, ZN(180))
angle_rad_fx(angle) == fixed_division_by_scalar(fixed_multiplyi(angle, phi), I32T, ZN(180))
=============================================================================
