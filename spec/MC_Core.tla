------------------------------ MODULE MC_Core ------------------------------
(***************************************************************************)
(* E1r: the calculator machine at reduced width, every operand pair.       *)
(* Behaviours are "load r1; load r2; one library call".  The invariant     *)
(* Refines says LowSpec (the transcribed code, language semantics) meets   *)
(* HighSpec (the property sentences) on the call that just returned, or    *)
(* the call lies in a named, open deviation (FxDeviations).                *)
(***************************************************************************)
EXTENDS FxJudge, TLC


CONSTANT Props          \* set of property ids to check
NoPrev == [op |-> "none"]

VARIABLES pc, r1, r2, last
vars == <<pc, r1, r2, last>>

RawInts == (-(2^(W-1))) .. (2^(W-1) - 1)
NoEvent == [op |-> "none", t |-> <<>>, a |-> <<>>, o |-> Z0, r |-> 0, ot |-> "fx", trap |-> "", ub |-> "", low |-> Z0]

BinFx   == {"add", "sub", "mul", "div", "and", "cmp"}
UnFx    == {"neg", "abs", "isnan", "floor", "ceil", "sqrt_abacus"}
Tags    == {"i16", "u16", "i32", "u32", "i64", "u64"}

(* the event of calling op on the registers; the result is LowSpec's (machine semantics when the
   language semantics is undefined, so that there is always a result to judge) *)
EvT(op, t, a, r, ot) ==
   LET e0 == [op |-> op, t |-> t, a |-> a, r |-> r, ot |-> ot, o |-> Z0, trap |-> "", ub |-> "", low |-> Z0]
       lu == IF op = "cmp" THEN LU!LowCmp(e0) ELSE LU!LowCore(e0)
       lm == IF op = "cmp" THEN lu ELSE LM!LowCore(e0)
       ub == op # "cmp" /\ ZIsPoison(lu)
       tr == op # "cmp" /\ ZIsPoison(lm)
   IN [e0 EXCEPT !.o = IF tr THEN Z0 ELSE lm, !.trap = IF tr THEN "trap" ELSE "", !.low = IF ub THEN ZPoison ELSE Z0]

Ev(op, t, a, r) == EvT(op, t, a, r, "fx")

Init == pc = "load1" /\ r1 = Z0 /\ r2 = Z0 /\ last = NoEvent
Load1 == pc = "load1" /\ \E i \in RawInts : r1' = ZN(i) /\ pc' = "load2" /\ UNCHANGED <<r2, last>>
Load2 == pc = "load2" /\ \E i \in RawInts : r2' = ZN(i) /\ pc' = "call" /\ UNCHANGED <<r1, last>>
OpsOf(p) ==
   CASE p = "C01" -> {"add", "sub"} [] p = "C02" -> {"mul", "smul"} [] p = "C03" -> {"div", "sdiv"}
     [] p = "C04" -> {"i2f", "f2i", "sadd", "ssub"} [] p = "C06" -> {"cmp", "neg", "abs", "isnan"}
     [] p = "C13" -> {"sqrt_abacus"} [] p = "C15" -> {"floor", "ceil"} [] p = "C18" -> {"shl", "shr", "and"}
     [] OTHER -> BinFx \cup UnFx \cup {"shl", "shr", "smul", "sdiv", "sadd", "ssub", "i2f", "f2i"}
On(op) == \E p \in Props : op \in OpsOf(p)
Call ==
   /\ pc = "call" /\ pc' = "done" /\ UNCHANGED <<r1, r2>>
   /\ \/ \E op \in BinFx : On(op) /\ last' = Ev(op, <<"fx", "fx">>, <<r1, r2>>, 0)
      \/ \E op \in UnFx : On(op) /\ r2 = Z0 /\ last' = Ev(op, <<"fx">>, <<r1>>, 0)
      \/ \E op \in {"shl", "shr"} : On(op) /\ ZToInt(r2) \in (-3)..(W-1) /\ last' = Ev(op, <<"fx">>, <<r1>>, ZToInt(r2))
      \/ \E tg \in Tags :
            LET n == WrapT(TypeOf(tg), r2) IN
            \/ \E op \in {"add", "sub", "mul", "div"} : On("s" \o op) /\ last' = Ev(op, <<"fx", tg>>, <<r1, n>>, 0)
            \/ \E op \in {"add", "sub", "mul", "div"} : On("s" \o op) /\ last' = Ev(op, <<tg, "fx">>, <<n, r1>>, 0)
            \/ On("i2f") /\ r1 = Z0 /\ last' = Ev("i2f", <<tg>>, <<n>>, 0)
            \/ On("f2i") /\ r2 = Z0 /\ last' = EvT("f2i", <<"fx">>, <<r1>>, 0, tg)
Next == Load1 \/ Load2 \/ Call
Spec == Init /\ [][Next]_vars

Refines == \A p \in Props :
              \/ OkCore(p, NoPrev, [last EXCEPT !.ub = IF last.low = ZPoison THEN "ub" ELSE ""])
              \/ \E d \in EnabledDeviations : Covers(d, p, last)
=============================================================================
