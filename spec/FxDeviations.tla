---------------------------- MODULE FxDeviations ----------------------------
(***************************************************************************)
(* Named deviations of the code from HighSpec = the OPEN entries of        *)
(* /verif/known_findings.json (one id each; the set of enabled ids is the  *)
(* constant EnabledDeviations, filled in by bin/fxcheck from that file).   *)
(*                                                                         *)
(* A deviation is specific: property, operation, a REGION of operands as a *)
(* predicate, and the BEHAVIOUR the code was recorded to have there:       *)
(*     Covers(d, p, e) ==  region_d(e)  /\  behaviour_d(e)                 *)
(* behaviour is "the result is still exactly LowSpec's (machine            *)
(* semantics)" or, where the language semantics is undefined and compilers *)
(* differ, "any result".  A rejected event that no enabled deviation       *)
(* covers is a violation: a different wrong value in the same region, or   *)
(* the same wrong value outside it, is reported.                           *)
(***************************************************************************)
EXTENDS FxContract

CONSTANT EnabledDeviations

LU == INSTANCE FxLow WITH Mach <- FALSE
LM == INSTANCE FxLow WITH Mach <- TRUE

IsCmp(e) == e.op = "cmp"
LowU(e) == IF IsCmp(e) THEN LU!LowCmp(e) ELSE LU!LowCore(e)
LowM(e) == IF IsCmp(e) THEN LM!LowCmp(e) ELSE LM!LowCore(e)
HasLow(e) == IsCmp(e) \/ LowM(e) # LU!NoLow
UBinLow(e) == ~IsCmp(e) /\ ZIsPoison(LowU(e))           \* the transcribed code has UB on this call
TrapInLow(e) == ~IsCmp(e) /\ ZIsPoison(LowM(e))         \* ... and it is a trap even with wrap-around
AsLow(e) == IF TrapInLow(e) THEN e.trap # "" ELSE (e.trap = "" /\ e.o = LowM(e))

Covers(d, p, e) == FALSE
=============================================================================
