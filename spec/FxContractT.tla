---------------------------- MODULE FxContractT ----------------------------
(***************************************************************************)
(* HighSpec, elementary functions and tables: properties C09-C12, C14,     *)
(* C19, C20 at the library's real parameters (W,F,IB) = (64,16,31).        *)
(* Real-valued bounds are decided with the enclosures of FxReal; inverse   *)
(* functions by inversion (compare x with tan/sin of the claimed angle),   *)
(* square roots by squaring.  Every test accepts if SOME point of the      *)
(* enclosures satisfies the stated bound.                                  *)
(*                                                                         *)
(* Relational clauses (oddness, periodicity, monotonicity, symmetry) are   *)
(* judged on "pair" events: f_pair with operands <<x, x2>> carries         *)
(* o = f(x2) and ref = f(x), both returned by the library.                 *)
(***************************************************************************)
EXTENDS FxContract, FxReal

Phi     == ZN(205887)          \* the library's pi constant (numbers.h)
HalfPhi == ZN(102944)          \* fixpidiv2
TwoPhi  == ZN(411774)          \* 2*phi as computed by the library
U(n, d) == Ulp(n, d)           \* n/d ulp as a scaled real
RR(raw) == RealOfRaw(raw)
PtIv(raw) == IvPoint(RR(raw))
AbsLe(a, b) == ZAbs(a) \preceq b

-----------------------------------------------------------------------------
(* C09  sin, cos *)
SinCosDom(x) == AbsLe(x, TwoPhi)                             \* |x| <= 2*pi : raws -411774 .. 411774
PerDom(x) == ZAbs(x) \prec P(62)        \* "|x| below 2^46": the value, i.e. raw below 2^62 (the quantifier text: every raw x with |x| < 2^62)
(* |out - f(x)| <= extra + 4 ulp + r^9/9!  where arg is the enclosure whose sine is the true value *)
SinBoundOk(arg, out, extraUlp) ==
   LET S == SinIv(arg)
       r == DistToPiMultiple(arg)
   IN IvDist(RR(out), S) \preceq (U(4 + extraUlp, 1) ++ R9Over9Fact(r[2]))
Rel_C09(e) == (e.op \in {"sin", "cos"} /\ SinCosDom(e.a[1]))
              \/ (e.op \in {"sin_pair", "cos_pair"} /\ PerDom(e.a[1]) /\ PerDom(e.a[2]) /\ ((e.a[2] -- e.a[1]) %% TwoPhi) = Z0)
Ok_C09(e) ==
   CASE e.op = "sin" /\ Rel_C09(e) -> SinBoundOk(PtIv(e.a[1]), e.o, 0) /\ AbsLe(e.o, OneFx)
     [] e.op = "cos" /\ Rel_C09(e) -> SinBoundOk(IvAdd(PtIv(e.a[1]), HalfPiIv), e.o, 0) /\ AbsLe(e.o, OneFx)
     [] e.op \in {"sin_pair", "cos_pair"} /\ Rel_C09(e) -> e.o = e.ref       \* exact periodicity
     [] OTHER -> TRUE

-----------------------------------------------------------------------------
(* C10  tan *)
TanPole(x) == (ZAbs(x) %% Phi) = HalfPhi
TanAccDom(x) == AbsLe(x, Phi) /\ ~TanPole(x)
TanDom(x) == ZAbs(x) \prec P(62)
(* |T - tan a| <= k ulp (1 + tan^2 a), multiplied through by cos^2 a:  |T cos a - sin a| |cos a| <= k ulp *)
TanBoundOk(arg, out, kn, kd) ==
   LET C == CosIv(arg)
       S == SinIv(arg)
       TC == IvDivN(IvScale(C, out), OneFx)                  \* (out / 2^16) * cos
       L == IvMul(IvSub(TC, S), C)
   IN IvAbsLo(L) \preceq (U(kn, kd) ++ EPS)
Rel_C10(e) == (e.op = "tan" /\ TanDom(e.a[1]))
              \/ (e.op = "tan_pair" /\ TanDom(e.a[1]) /\ TanDom(e.a[2]))
Ok_C10(e) ==
   CASE e.op = "tan" /\ Rel_C10(e) ->
           /\ IsNaN(e.o) <=> TanPole(e.a[1])
           /\ TanAccDom(e.a[1]) => TanBoundOk(PtIv(e.a[1]), e.o, 5, 2)
     [] e.op = "tan_pair" /\ Rel_C10(e) ->
           (* odd; at a pole both sides only have to be NaN (the library returns +NaN for both signs: permissive reading) *)
           /\ (e.a[2] = ZNeg(e.a[1])) => (IF IsNaN(e.ref) THEN IsNaN(e.o) ELSE e.o = ZNeg(e.ref))
           /\ ((Z0 \preceq e.a[1]) /\ (e.a[1] \preceq e.a[2]) /\ ((e.a[2] -- e.a[1]) %% Phi) = Z0) => e.o = e.ref   \* period phi
     [] OTHER -> TRUE

-----------------------------------------------------------------------------
(* C11  atan, atan2 *)
AtanDom(x) == ZAbs(x) \prec DomLim
Eps5 == ((ZN(5) ** SCu) // ZN(100000)) ++ Z1                 \* 5e-5
Eps8 == ((ZN(8) ** SCu) // ZN(100000)) ++ Z1                 \* 8e-5
(* "atan(xr) <= u" for the angle u (scaled point), xr a scaled real: lenient with enclosures *)
AtanLeAngle(xr, u) ==
   \/ HalfPiIv[1] \preceq u
   \/ /\ ZNeg(HalfPiIv[2]) \prec u
      /\ LET C == CosIv(IvPoint(u))  S == SinIv(IvPoint(u)) IN
         (IF Z0 \preceq xr THEN MulS(xr, C[1]) ELSE MulS(xr, C[2])) \preceq (S[2] ++ Z1)
AtanGeAngle(xr, u) ==
   \/ u \preceq ZNeg(HalfPiIv[1])
   \/ /\ u \prec HalfPiIv[2]
      /\ LET C == CosIv(IvPoint(u))  S == SinIv(IvPoint(u)) IN
         (S[1] -- Z1) \preceq (IF Z0 \preceq xr THEN MulS(xr, C[2]) ++ Z1 ELSE MulS(xr, C[1]) ++ Z1)
AtanWithin(xr, out, eps) == AtanLeAngle(xr, RR(out) ++ eps) /\ AtanGeAngle(xr, RR(out) -- eps)

SinEps8 == SinIv(IvPoint(Eps8))
CosEps8 == CosIv(IvPoint(Eps8))
Atan2AccOk(y, x, out) ==
   LET A  == IvPoint(RR(out))
       SA == SinIv(A)
       CA == CosIv(A)
       dot == IvAdd(IvScale(CA, x), IvScale(SA, y))           \* |v| cos(theta - A)
       crs == IvSub(IvScale(CA, y), IvScale(SA, x))           \* |v| sin(theta - A)
   IN /\ Z0 \prec dot[2]
      /\ MulS(IvAbsLo(crs), CosEps8[1]) \preceq (MulS(dot[2], SinEps8[2]) ++ Z1)
      /\ ZAbs(RR(out)) \preceq (PiIv[2] ++ Eps8)

Rel_C11(e) == (e.op = "atan" /\ AtanDom(e.a[1]))
              \/ (e.op = "atan_pair" /\ AtanDom(e.a[1]) /\ AtanDom(e.a[2]))
              \/ (e.op = "atan2" /\ AtanDom(e.a[1]) /\ AtanDom(e.a[2]))
Ok_C11(e) ==
   CASE e.op = "atan" /\ Rel_C11(e) -> AtanWithin(RR(e.a[1]), e.o, Eps5) /\ AbsLe(e.o, HalfPhi)
     [] e.op = "atan_pair" /\ Rel_C11(e) ->
           /\ (e.a[2] = ZNeg(e.a[1])) => (e.o = ZNeg(e.ref))
           /\ (e.a[1] \preceq e.a[2]) => (e.ref \preceq (e.o ++ ZN(2)))          \* x <= y => atan x <= atan y + 2 ulp
     [] e.op = "atan2" /\ Rel_C11(e) ->
           LET y == e.a[1]  x == e.a[2] IN
           IF y = Z0 /\ x = Z0 THEN IsNaN(e.o)
           ELSE /\ Atan2AccOk(y, x, e.o)
                /\ (Z0 \prec y) => (Z0 \preceq e.o)
                /\ (y \prec Z0) => (e.o \preceq Z0)
                /\ (x = Z0) => (e.o = IF Z0 \prec y THEN HalfPhi ELSE ZNeg(HalfPhi))
                /\ (y = Z0) => (e.o = IF Z0 \prec x THEN Z0 ELSE Phi)
     [] OTHER -> TRUE

-----------------------------------------------------------------------------
(* C12  asin, acos *)
ClampHalfPi(u) == ZMax(ZNeg(HalfPiIv[2]), ZMin(u, HalfPiIv[2]))
AsinOk(x, out) ==
   LET A   == RR(out)
       lo  == SinIv(IvPoint(ClampHalfPi(A -- U(4, 1))))[1]
       hi  == SinIv(IvPoint(ClampHalfPi(A ++ U(4, 1))))[2]
       xlo == ZMax(RR(x -- ZN(2)), ZNeg(SCu))
       xhi == ZMin(RR(x ++ ZN(2)), SCu)
   IN /\ IvMeets(<<lo, hi>>, <<xlo, xhi>>)
      /\ ZAbs(A) \preceq (HalfPiIv[2] ++ U(4, 1))
Rel_C12(e) == e.op \in {"asin", "acos", "asin_pair"} /\ \A i \in DOMAIN e.a : IsRaw(e.a[i])
Ok_C12(e) ==
   CASE e.op = "asin" /\ Rel_C12(e) ->
           IF OneFx \prec ZAbs(e.a[1]) THEN IsNaN(e.o) ELSE (~IsNaN(e.o) /\ AsinOk(e.a[1], e.o))
     [] e.op = "acos" /\ Rel_C12(e) ->
           IF OneFx \prec ZAbs(e.a[1]) THEN IsNaN(e.o)
           ELSE /\ ~IsNaN(e.o)
                (* within 1 ulp of pi/2 - asin(x), asin(x) being the library's own result e.ref *)
                /\ e.hasref => IvDist(RR(e.o), IvSub(HalfPiIv, PtIv(e.ref))) \preceq U(1, 1)
     [] e.op = "asin_pair" /\ Rel_C12(e) /\ AbsLe(e.a[1], OneFx) /\ AbsLe(e.a[2], OneFx) ->
           /\ (e.a[2] = ZNeg(e.a[1])) => (e.o = ZNeg(e.ref))
           /\ (e.a[1] \preceq e.a[2]) => (e.ref \preceq e.o)                      \* non-decreasing
     [] OTHER -> TRUE

-----------------------------------------------------------------------------
(* C14  hypot *)
HypDom(a) == ZAbs(a) \prec DomLim
Rel_C14(e) == e.op \in {"hypot", "hypot_sym"} /\ HypDom(e.a[1]) /\ HypDom(e.a[2])
HypotOk(a, b, out) ==
   LET S == Sq(a) ++ Sq(b) IN
   /\ ~IsNaN(out) /\ (Z0 \preceq out)
   /\ IF (ZAbs(a) \prec P(30)) /\ (ZAbs(b) \prec P(30))
      THEN /\ (ZN(2) \preceq out) => (Sq(out -- ZN(2)) \preceq S)
           /\ S \preceq Sq(out ++ ZN(2))
      ELSE /\ (Sq(ZN(19997)) ** S) \preceq (Sq(ZN(20000)) ** Sq(out))
           /\ (Sq(ZN(20000)) ** Sq(out)) \preceq (Sq(ZN(20003)) ** S)
Ok_C14(e) ==
   CASE e.op = "hypot" /\ Rel_C14(e) -> HypotOk(e.a[1], e.a[2], e.o)
     [] e.op = "hypot_sym" /\ Rel_C14(e) -> HypotOk(e.a[1], e.a[2], e.o) /\ e.o = e.ref /\ e.o = e.conv   \* (b,a) and (|a|,|b|)
     [] OTHER -> TRUE

-----------------------------------------------------------------------------
(* C19  tables and approximations *)
SqrtTabOk(i, t) ==               \* |t - 65536 sqrt(i/256 + 31/2^18)| <= 1, squared: 2^32 (i/256 + 31/2^18) = i 2^24 + 31 2^14
   LET X == (i ** P(24)) ++ (ZN(31) ** P(14)) IN
   /\ ((Z1 \preceq t) => (Sq(t -- Z1) \preceq X)) /\ (X \preceq Sq(t ++ Z1))
Rel_C19(e) ==
   \/ e.op \in {"tab_sin", "tab_cos"} /\ (e.a[1] \preceq ZN(360))
   \/ e.op = "tab_tan" /\ e.a[1] # ZN(128)
   \/ e.op = "tab_sqrt"
   \/ e.op \in {"sin_angle_aprox", "cos_angle_aprox"}
   \/ e.op = "sqrt_aprox" /\ (e.a[1] \prec P(37)) /\ IsRaw(e.a[1])
   \/ e.op = "atan_index_aprox" /\ AtanDom(e.a[1])
Ok_C19(e) ==
   CASE e.op = "tab_sin" /\ Rel_C19(e) -> IvDist(RR(e.o), SinIv(DegIv(e.a[1]))) \preceq U(2, 1)
     [] e.op = "tab_cos" /\ Rel_C19(e) -> IvDist(RR(e.o), CosIv(DegIv(e.a[1]))) \preceq U(2, 1)
     [] e.op = "tab_tan" /\ Rel_C19(e) -> TanBoundOk(Idx256Iv(e.a[1]), e.o, 2, 1)
     [] e.op = "tab_sqrt" -> SqrtTabOk(e.a[1], e.o)
     [] e.op = "sin_angle_aprox" -> IvDist(RR(e.o), SinIv(DegIv(e.a[1]))) \preceq U(2, 1)
     [] e.op = "cos_angle_aprox" -> IvDist(RR(e.o), CosIv(DegIv(e.a[1]))) \preceq U(2, 1)
     [] e.op = "sqrt_aprox" /\ Rel_C19(e) ->
           IF e.a[1] \prec Z0 THEN IsNaN(e.o)
           ELSE IF e.a[1] = Z0 THEN e.o = Z0
           ELSE LET X == e.a[1] ** OneFx IN                                       \* |out - sqrt X| <= 0.02 sqrt X
                /\ Z0 \preceq e.o
                /\ (ZN(9604) ** X) \preceq (ZN(10000) ** Sq(e.o))
                /\ (ZN(10000) ** Sq(e.o)) \preceq (ZN(10404) ** X)
     [] e.op = "atan_index_aprox" /\ Rel_C19(e) ->
           (* |I - atan(x) 128/pi| <= 1.25  <=>  atan(x) within [(I-1.25) pi/128, (I+1.25) pi/128] *)
           LET I == RR(e.o)
               up == IvDivN(IvMul(PiIv, IvPoint(I ++ U(5 * 65536, 4))), ZN(128))
               dn == IvDivN(IvMul(PiIv, IvPoint(I -- U(5 * 65536, 4))), ZN(128))
           IN AtanLeAngle(RR(e.a[1]), up[2]) /\ AtanGeAngle(RR(e.a[1]), dn[1])
     [] OTHER -> TRUE

-----------------------------------------------------------------------------
(* C20  degree helpers.  e.a[1] is the integer d (or, for float / fixed carriers, the value: see DegOf) *)
DegTags == IntTags \cup {"f32", "fx"}
(* the integer number of degrees an operand of the *_angle functions carries, or "none" *)
DegOf(tag, v) ==
   IF tag = "fx" THEN (IF (v %% OneFx) = Z0 THEN v // OneFx ELSE ZN(100000))
   ELSE v                                                                      \* integral tags (f32 handled in FxFloat)
AllOps == {"sin_angle_all", "cos_angle_all", "tan_angle_all"}
Rel_C20(e) ==
   \/ e.op \in AllOps /\ AbsLe(e.a[1], ZN(360))
   \/ e.op = "a2r"
   \/ e.op \in {"sin_angle", "cos_angle", "tan_angle"} /\ e.t[1] \in (IntTags \cup {"fx"}) /\ AbsLe(DegOf(e.t[1], e.a[1]), ZN(360))
Ok_C20(e) ==
   CASE e.op = "a2r" ->
           IF (Z0 \preceq e.a[1]) /\ (e.a[1] \preceq ZN(360))
           THEN ~IsNaN(e.o) /\ IvDist(RR(e.o), DegIv(e.a[1])) \preceq U(2, 1)
           ELSE IsNaN(e.o)
     (* integer, float and fixed_t arguments carrying the same d give the same result (e.o: through int32_t, e.alts: every other type) *)
     [] e.op \in AllOps /\ Rel_C20(e) -> \A i \in DOMAIN e.alts : e.alts[i] = e.o
     [] e.op = "sin_angle" /\ Rel_C20(e) -> SinBoundOk(DegIv(DegOf(e.t[1], e.a[1])), e.o, 3)
     [] e.op = "cos_angle" /\ Rel_C20(e) -> SinBoundOk(IvAdd(DegIv(DegOf(e.t[1], e.a[1])), HalfPiIv), e.o, 3)
     [] e.op = "tan_angle" /\ Rel_C20(e) ->
           LET d == DegOf(e.t[1], e.a[1]) IN
           (ZAbs(d) # ZN(90) /\ ZAbs(d) # ZN(270)) => TanBoundOk(DegIv(d), e.o, 5, 1)
     [] OTHER -> TRUE
=============================================================================
