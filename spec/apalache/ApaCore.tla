------------------------------ MODULE ApaCore ------------------------------
(***************************************************************************)
(* Symbolic obligations at the REAL width (64/16/31) for the linear part   *)
(* of the arithmetic core: Apalache (SMT, unbounded integers) checks that  *)
(* the transcription of the working tree's code meets the property's       *)
(* clause for ALL 2^64 (2^128, 2^192) operand values - a statement about   *)
(* the model, complementing TLC's exhaustive reduced-width run (MC_Core)   *)
(* and the executions of the real code (FxTrace).                          *)
(* The definitions restate FxAlgo / FxContract over plain integers (no     *)
(* poison value is needed: after the fix: commits these operations have no *)
(* undefined behaviour; wrap-around is written with modulo).               *)
(* One invariant per obligation; checked with                              *)
(*     apalache-mc check --length=0 --inv=<name> ApaCore.tla               *)
(***************************************************************************)
EXTENDS Integers

VARIABLES
  \* @type: Int;
  a,
  \* @type: Int;
  b,
  \* @type: Int;
  c

P63 == 9223372036854775808
P64 == 18446744073709551616
NaNv == P63 - 1
Maxv == P63 - 2
OneFx == 65536
MaxIntegral == 2147483647
IsRaw(x) == -P63 <= x /\ x < P63
Finite(x) == -Maxv <= x /\ x <= Maxv
IsNaN(x) == x = NaNv \/ x = -NaNv
Wrap(x) == ((x + P63) % P64) - P63

Init == a \in Int /\ b \in Int /\ c \in Int /\ IsRaw(a) /\ IsRaw(b) /\ IsRaw(c)
Next == UNCHANGED <<a, b, c>>

(* FxAlgo.fixed_additioni / fixed_substracti (math.h after "fix: addition and subtraction ...") *)
Addi(lh, rh) ==
   LET result == Wrap(lh + rh) IN
   IF result >= 0 THEN (IF lh < 0 /\ rh < 0 THEN -NaNv ELSE result)
   ELSE (IF lh > 0 /\ rh > 0 THEN NaNv ELSE IF result = -P63 THEN -NaNv ELSE result)
Subi(lh, rh) ==
   LET result == Wrap(lh - rh) IN
   IF result >= 0 THEN (IF lh < 0 /\ rh > 0 THEN -NaNv ELSE result)
   ELSE (IF lh > 0 /\ rh < 0 THEN NaNv ELSE IF result = -P63 THEN -NaNv ELSE result)
Neg(x) == -x
Abs(x) == IF x > 0 THEN x ELSE -x
IsNanFn(x) == Abs(x) = NaNv
Floor(x) == x - (x % OneFx)                                   \* value.v & ~0xffff on two's complement
Ceil(x) == LET result == Floor(Wrap(x + 65535)) IN IF x <= result THEN result ELSE NaNv

(* C01 *)
OkSum(s, out) == IF Finite(s) THEN out = s ELSE IsNaN(out)
Inv_C01_add == (Finite(a) /\ Finite(b)) => OkSum(a + b, Addi(a, b))
Inv_C01_sub == (Finite(a) /\ Finite(b)) => OkSum(a - b, Subi(a, b))
(* C03, FxAlgo.fixed_division_by_scalar after "fix: fixed / integer traps ...": a signed divisor equal to -1 never reaches the
   division instruction; the quotient is the unsigned negation, which is the exact quotient a / -1 for every raw word
   except the lowest one (whose exact quotient 2^63 is not a word) *)
DivM1(lh) == Wrap(0 - lh)
Inv_C03_div_m1 == IsRaw(DivM1(a)) /\ (a # -P63 => DivM1(a) = -a) /\ (Finite(a) => Finite(DivM1(a)))
(* C06 *)
Inv_C06_neg_abs == Finite(a) => (Neg(Neg(a)) = a /\ Finite(Neg(a)) /\ Abs(a) >= 0 /\ Abs(Neg(a)) = Abs(a) /\ Finite(Abs(a))
                                  /\ (Abs(a) = a \/ Abs(a) = -a))
Inv_C06_isnan == (Finite(a) \/ IsNaN(a)) => (IsNanFn(a) <=> IsNaN(a))
(* C15 *)
C15Lim == (140737488355328 - 1) * OneFx
Inv_C15 == (Finite(a) /\ -C15Lim < a /\ a < C15Lim) =>
              /\ Floor(a) % OneFx = 0 /\ Floor(a) <= a /\ a < Floor(a) + OneFx
              /\ Ceil(a) % OneFx = 0 /\ Ceil(a) - OneFx < a /\ a <= Ceil(a)
              /\ Ceil(a) = -Floor(-a)
              /\ (a % OneFx = 0 => (Floor(a) = a /\ Ceil(a) = a))
(* C04: integral_to_fixed for a 64-bit signed / unsigned n (the narrower types are value subsets), fixed_to_integral *)
I2F(n) == IF n <= MaxIntegral /\ -MaxIntegral <= n THEN Wrap(n * OneFx) ELSE NaNv
Inv_C04_i2f == (-P63 <= a /\ a < P64) => (IF -MaxIntegral <= a /\ a <= MaxIntegral THEN I2F(a) = a * OneFx ELSE IsNaN(I2F(a)))
F2I(x, lo, hi) == LET tmp == x \div OneFx IN IF lo <= tmp /\ tmp <= hi THEN tmp ELSE 0
Inv_C04_f2i == Finite(a) =>
   /\ F2I(a, -128, 127) = (IF -128 * OneFx <= a /\ a < 128 * OneFx THEN a \div OneFx ELSE 0)
   /\ F2I(a, 0, 4294967295) = (IF 0 <= a /\ a < 4294967296 * OneFx THEN a \div OneFx ELSE 0)
   /\ F2I(a, -P63, P63 - 1) = a \div OneFx
   /\ \A n \in {-2147483647, -1, 0, 1, 127, 2147483647} : F2I(I2F(n), -P63, P63 - 1) = n
(* C17: the laws that only involve + and - *)
NoNaN2(x, y) == ~IsNaN(x) /\ ~IsNaN(y)
Inv_C17_comm == (Finite(a) /\ Finite(b)) => Addi(a, b) = Addi(b, a)
Inv_C17_sub_neg == (Finite(a) /\ Finite(b)) => (Subi(a, b) = Addi(a, Neg(b)) /\ Subi(a, a) = 0)
Inv_C17_cancel == (Finite(a) /\ Finite(b) /\ NoNaN2(Addi(a, b), Subi(Addi(a, b), b))) => Subi(Addi(a, b), b) = a
Inv_C17_assoc == (Finite(a) /\ Finite(b) /\ Finite(c)
                  /\ NoNaN2(Addi(a, b), Addi(Addi(a, b), c)) /\ NoNaN2(Addi(b, c), Addi(a, Addi(b, c))))
                 => Addi(Addi(a, b), c) = Addi(a, Addi(b, c))
Inv_C17_mono == (Finite(a) /\ Finite(b) /\ Finite(c) /\ a < b /\ NoNaN2(Addi(a, c), Addi(b, c))) => Addi(a, c) <= Addi(b, c)
=============================================================================
