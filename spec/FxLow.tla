-------------------------------- MODULE FxLow --------------------------------
(***************************************************************************)
(* LowSpec as a function of an event: what the transcribed algorithm of    *)
(* the working tree returns for the call e (operation, operand type tags,  *)
(* operands).  Instantiated twice by the machine:                          *)
(*   Mach = FALSE  language semantics (ZPoison where C++ has UB)           *)
(*   Mach = TRUE   two's complement wrap-around instead                    *)
(***************************************************************************)
EXTENDS FxAlgo, FxContract

NoLow == ZN(-7)      \* "the model has no prediction for this event" (never compared with a result)

(* promotion of a typed operand to fixed_t (math.h:240 promote_to_fixed) *)
Prom(tag, v) == IF tag = "fx" THEN v ELSE integral_to_fixed(TypeOf(tag), v)

LowCore(e) ==
   CASE e.op = "add" /\ e.t = <<"fx", "fx">> -> fixed_additioni(e.a[1], e.a[2])
     [] e.op = "sub" /\ e.t = <<"fx", "fx">> -> fixed_substracti(e.a[1], e.a[2])
     [] e.op = "mul" /\ e.t = <<"fx", "fx">> -> fixed_multiplyi(e.a[1], e.a[2])
     [] e.op = "div" /\ e.t = <<"fx", "fx">> -> fixed_divisionf(e.a[1], e.a[2])
     [] e.op = "add" /\ (IsIntTag(e.t[1]) \/ IsIntTag(e.t[2])) ->
           fixed_additioni(Prom(e.t[1], e.a[1]), Prom(e.t[2], e.a[2]))
     [] e.op = "sub" /\ (IsIntTag(e.t[1]) \/ IsIntTag(e.t[2])) ->
           fixed_substracti(Prom(e.t[1], e.a[1]), Prom(e.t[2], e.a[2]))
     [] e.op = "mul" /\ e.t[1] = "fx" /\ IsIntTag(e.t[2]) -> fixed_multiply_scalar(e.a[1], TypeOf(e.t[2]), e.a[2])
     [] e.op = "mul" /\ e.t[2] = "fx" /\ IsIntTag(e.t[1]) -> fixed_multiply_scalar(e.a[2], TypeOf(e.t[1]), e.a[1])
     [] e.op = "div" /\ e.t[1] = "fx" /\ IsIntTag(e.t[2]) -> fixed_division_by_scalar(e.a[1], TypeOf(e.t[2]), e.a[2])
     [] e.op = "div" /\ e.t[2] = "fx" /\ IsIntTag(e.t[1]) -> fixed_divisionf(Prom(e.t[1], e.a[1]), e.a[2])
     [] e.op = "i2f" -> integral_to_fixed(TypeOf(e.t[1]), e.a[1])
     [] e.op = "f2i" -> fixed_to_integral(TypeOf(e.ot), e.a[1])
     [] e.op = "isnan" -> isnan(e.a[1])
     [] e.op = "neg" -> op_neg(e.a[1])
     [] e.op = "abs" -> abs_(e.a[1])
     [] e.op = "shl" -> op_shl(e.a[1], e.r)
     [] e.op = "shr" -> op_shr(e.a[1], e.r)
     [] e.op = "and" -> op_and(e.a[1], e.a[2])
     [] e.op = "floor" -> floor_(e.a[1])
     [] e.op = "ceil" -> ceil_(e.a[1])
     [] e.op = "sqrt_abacus" -> sqrt_abacus(e.a[1])
     [] OTHER -> NoLow
(* comparison results are 6-tuples, kept apart because ZIsPoison applies to single integers only *)
LowCmp(e) == <<op_eq(e.a[1], e.a[2]), op_ne(e.a[1], e.a[2]), op_lt(e.a[1], e.a[2]),
               op_le(e.a[1], e.a[2]), op_gt(e.a[1], e.a[2]), op_ge(e.a[1], e.a[2])>>
=============================================================================
