------------------------------ MODULE FxAlgoTab ------------------------------
(***************************************************************************)
(* LowSpec, compiled lookup-table functions of fixed_lib/src/fixed_math.cc *)
(* and their inline wrappers in math.h: sin_angle_aprox, cos_angle_aprox,  *)
(* sqrt_aprox, hypot_aprox, atan_index_aprox, atan_aprox.                  *)
(* The four tables are DATA of the working tree: bin/fxcheck reads them    *)
(* through the library's own accessors (sin_angle_tab, cos_angle_tab,      *)
(* tan_tab, square_root_tab) of the driver built from /repo and passes     *)
(* them in the JSON file named by FX_TABLES (entries as 4 base-2^16 limbs).*)
(***************************************************************************)
EXTENDS FxAlgoT, Json, IOUtils

TablesJson == JsonDeserialize(IOEnv.FX_TABLES)
TabOf(name) == LET raw == TablesJson[name] IN [i \in DOMAIN raw |-> Wrap(ZFromLimbs(raw[i]))]
SinTab == TabOf("sin")          \* 361 entries
CosTab == TabOf("cos")          \* 361
TanTab == TabOf("tan")          \* 256
SqrtTab == TabOf("sqrt")        \* 256

I32(x) == LET m == x %% P(32) IN IF m \prec P(31) THEN m ELSE m -- P(32)      \* conversion to int32_t (modular)
U8(x)  == x %% P(8)
U16(x) == x %% P(16)
U32(x) == x %% P(32)

(* math.h: sin_angle_aprox / cos_angle_aprox; the accessor takes uint16_t *)
angle_index(angle) ==
   IF (angle \prec Z0) \/ (ZN(360) \prec angle)
   THEN LET r == ZTRem(angle, ZN(360)) IN IF r \prec Z0 THEN r ++ ZN(360) ELSE r
   ELSE angle
sin_angle_aprox(angle) == ArrIdx(SinTab, ZToInt(U16(angle_index(angle))))
cos_angle_aprox(angle) == ArrIdx(CosTab, ZToInt(U16(angle_index(angle))))

(* fixed_math.cc: fix_rbit_scan_clz on uint32_t: number of significant bits *)
rbit_scan(u) == ZBitLen(u)
And254(n) == (n \div 2) * 2 % 256                         \* n & 0xfe for 0 <= n <= 64
square_root_tab(i) == ArrIdx(SqrtTab, ZToInt(U8(i)))
(* fixed_math.cc: sqrt_aprox *)
sqrt_aprox(v) ==
   IF PZ(v) THEN ZPoison
   ELSE IF v \preceq Z0 THEN (IF v \prec Z0 THEN quiet_NaN_result ELSE Z0)
   ELSE LET cl    == And254(rbit_scan(U32(ZShr(v, 6))))
            index == I32(ZShr(v, cl))
            val   == SShl(square_root_tab(index), cl \div 2)
        IN SShr(val, 4)
(* fixed_math.cc: hypot_aprox (unsigned 64-bit arithmetic) *)
hypot_aprox(lh, rh) ==
   IF PZ(lh) \/ PZ(rh) THEN ZPoison
   ELSE LET ul == ToU(lh)  ur == ToU(rh)
            sum == UAdd(UMul(ul, ul), UMul(ur, ur))
        IN IF (P(46) -- Z1) \prec sum THEN quiet_NaN_result
           ELSE LET hi == U32(ZShr(sum, 32))  lo == U32(sum)
                    clz0 == rbit_scan(hi)
                IN IF clz0 # 0
                   THEN LET clz == And254(clz0 + 2)
                            s2  == ZShr(sum, clz)
                            idx == U8(ZShr(s2, 24))
                        IN SShl(square_root_tab(idx), clz \div 2)
                   ELSE LET lo16 == ZShr(lo, 16)
                            clz  == And254(rbit_scan(ZShr(lo16, 6)))
                            idx  == ZShr(lo16, clz)
                        IN SShr(SShl(square_root_tab(idx), clz \div 2), 4)

(* std::lower_bound on tan_table__[first, first+len) by bisection, exactly as libstdc++ does it (the second half of the
   table is NOT sorted at its first entry tan(pi/2) = +6065714022, so a linear scan would differ); 0-based indices *)
RECURSIVE LowerBound(_, _, _)
LowerBound(first, len, v) ==
   IF len <= 0 THEN first
   ELSE LET half == len \div 2  mid == first + half IN
        IF TanTab[mid + 1] \prec v THEN LowerBound(mid + 1, len - half - 1, v) ELSE LowerBound(first, half, v)
tan_tab(i) == ArrIdx(TanTab, ZToInt(U8(ZN(i))))
(* fixed_math.cc: atan_index_aprox *)
atan_index_aprox(v) ==
   IF PZ(v) THEN ZPoison
   ELSE LET neg == v \prec Z0
            it  == IF neg THEN LowerBound(128, 128, v) ELSE LowerBound(0, 128, v)
            idx == IF it # 0 /\ (fixed_substracti(v, tan_tab(it - 1)) \prec fixed_substracti(tan_tab(it), v)) THEN it - 1 ELSE it
            r   == ZShl(ZN(idx), 15)
        IN IF neg THEN fixed_additioni(ZNeg(ZN(128) ** OneFx), r) ELSE r
(* math.h: atan_aprox = atan_index_aprox(value) * fixtorad_r *)
atan_aprox(v) == fixed_multiplyi(atan_index_aprox(v), ZN(1608))
=============================================================================
