---------------------------- MODULE FxContractX ----------------------------
(***************************************************************************)
(* HighSpec for C08: the product of the machine over build configurations. *)
(* A merged event x carries, for ONE call (operation, operand types,       *)
(* operands, call site), the distinct results observed over all run-time   *)
(* configurations                                                          *)
(*     x.outs[i] = [o, trap, ab]   ab = 1: configurations whose sqrt() is  *)
(*                                 the abacus algorithm at run time        *)
(* and the outcome of constant evaluation per (compiler, standard)         *)
(*     x.ce[i] = [c, r]            r in {"ok", "rejected", "differs"}      *)
(* ("ok": accepted as a constant expression with the run-time value of the *)
(* matching square-root algorithm).                                        *)
(***************************************************************************)
EXTENDS FxContract

SqrtDependent == {"sqrt", "hypot", "hypot_sym", "asin", "acos", "asin_pair", "sqrt_pair"}
TableOps == {"sin_angle_aprox", "cos_angle_aprox", "sqrt_aprox", "hypot_aprox", "atan_index_aprox", "atan_aprox",
             "tab_sin", "tab_cos", "tab_tan", "tab_sqrt"}

(* run-time results are independent of compiler, optimisation level and standard (same sqrt algorithm) *)
RuntimeAgree(x) ==
   \A i, j \in DOMAIN x.outs :
      (x.op \notin SqrtDependent \/ x.outs[i].ab = x.outs[j].ab) => (x.outs[i].o = x.outs[j].o /\ x.outs[i].trap = x.outs[j].trap)
(* the two square-root algorithms never differ by more than one unit in the last place (on C13's domain) *)
SqrtAlgosClose(x) ==
   (x.op = "sqrt" /\ (Z0 \preceq x.a[1]) /\ (x.a[1] \prec DomLim)) =>
      \A i, j \in DOMAIN x.outs : ZAbs(x.outs[i].o -- x.outs[j].o) \preceq Z1
(* every call that returns a value at run time is a constant expression with the same value *)
ConstEvalAgree(x) == \A i \in DOMAIN x.ce : x.ce[i].r = "ok"

Rel_C08(x) == TRUE
Ok_C08(x) == RuntimeAgree(x) /\ SqrtAlgosClose(x) /\ ConstEvalAgree(x)
=============================================================================
