------------------------------ MODULE MC_Unary ------------------------------
(***************************************************************************)
(* E1 at full width: TLC enumerates a raw-argument domain of ONE unary      *)
(* elementary function and checks, state by state, that LowSpec (the        *)
(* transcribed algorithm of the working tree, FxAlgoT) meets HighSpec (the  *)
(* property's clause) - no implementation involved.  The domain             *)
(* Lo..Hi (step Step) is cut into NChunks chains so that the breadth-first  *)
(* frontier is wide enough for all workers.                                 *)
(***************************************************************************)
EXTENDS FxJudgeT, TLC

CONSTANTS Op,        \* "sin", "cos", "tan", "atan", "asin", "acos", "sqrt", "sqrt_abacus", "sqrt_std"
          LoMag, LoNeg,   \* Lo = IF LoNeg THEN -LoMag ELSE LoMag (configuration files cannot hold negative numbers)
          Hi, Step, NChunks,
          Ab         \* 1: sqrt() is the abacus algorithm, 0: std::sqrt

LUT == INSTANCE FxLowT WITH Mach <- FALSE

Lo == IF LoNeg THEN -LoMag ELSE LoMag

VARIABLES x, last
vars == <<x, last>>

ChunkLen == ((Hi - Lo) \div Step) \div NChunks + 1
Starts == {Lo + (k * ChunkLen * Step) : k \in 0..(NChunks - 1)}
NoPrevE == [op |-> "none"]

Ev(v) ==
   LET e0 == [op |-> Op, t |-> <<"fx">>, a |-> <<ZN(v)>>, o |-> Z0, ot |-> "fx", r |-> 0, site |-> "model", via |-> "", asg |-> 0,
              trap |-> "", ub |-> "", hasref |-> FALSE, conv |-> Z0, ref |-> Z0]
       z  == LUT!LowZ(Ab, e0)
       rf == IF Op = "acos" THEN LUT!LowZ(Ab, [e0 EXCEPT !.op = "asin"]) ELSE Z0
   IN [e0 EXCEPT !.o = IF ZIsPoison(z) THEN Z0 ELSE z, !.ub = IF ZIsPoison(z) THEN "poison" ELSE "",
                 !.hasref = (Op = "acos"), !.ref = IF ZIsPoison(rf) THEN Z0 ELSE rf]

Init == x \in {s \in Starts : s <= Hi} /\ last = Ev(x)
Next == /\ x + Step <= Hi
        /\ (x + Step - Lo) \div (ChunkLen * Step) = (x - Lo) \div (ChunkLen * Step)        \* stay inside the chunk
        /\ x' = x + Step /\ last' = Ev(x')
Spec == Init /\ [][Next]_vars

NoUB == last.ub = ""
Refines == OkAll(Prop, NoPrevE, last)
=============================================================================
