-------------------------------- MODULE FxLowT --------------------------------
(***************************************************************************)
(* LowSpec as a function of an event, all operations (arithmetic core of   *)
(* FxLow plus the floating-point side; the elementary functions are added  *)
(* by FxAlgoT).  Fid(e) compares the recorded result with the prediction.  *)
(***************************************************************************)
EXTENDS FxLow, FxAlgoTab, FxContractF

PromF(tag, v) == IF tag = "fx" THEN v
                 ELSE IF IsFltTag(tag) THEN floating_point_to_fixed(FmtOf(tag), FDecode(FmtOf(tag), v))
                 ELSE integral_to_fixed(TypeOf(tag), v)
AsD(tag, v) == IF tag = "f64" THEN FDecode(F64, v) ELSE fixed_to_floating_point(F64, v)

(* the number of degrees -> radians conversion inside sin_angle / cos_angle / tan_angle, by carrier type *)
AngleRad(tag, v) == IF tag = "fx" THEN angle_rad_fx(v)
                    ELSE IF tag = "f32" THEN angle_rad_fx(floating_point_to_fixed(F32, FDecode(F32, v)))
                    ELSE angle_rad_int(TypeOf(tag), v)
Unary(ab, f, x) ==
   CASE f = "sin" -> sin_(x) [] f = "cos" -> cos_(x) [] f = "tan" -> tan_fn(x) [] f = "atan" -> atan_fn(x)
     [] f = "asin" -> asin_fn(ab, x) [] f = "acos" -> acos_fn(ab, x)
     [] f = "sqrt" -> sqrt_sel(ab, x) [] f = "sqrt_abacus" -> sqrt_abacus(x) [] f = "sqrt_std" -> sqrt_std_math(x)
PairBase(op) == SubSeq(op, 1, Len(op) - 5)          \* "sin_pair" -> "sin"
IsPairOp(op) == op \in {"sin_pair", "cos_pair", "tan_pair", "atan_pair", "asin_pair", "sqrt_pair", "sqrt_abacus_pair", "sqrt_std_pair"}
(* results that are fixed_t / integers; ab = 1 iff sqrt() is the abacus algorithm in the build that produced the event *)
LowZ(ab, e) ==
   CASE e.op = "fl2f" -> floating_point_to_fixed(FmtOf(e.t[1]), FDecode(FmtOf(e.t[1]), e.a[1]))
     [] e.op = "rt_d" -> floating_point_to_fixed(F64, fixed_to_floating_point(F64, e.a[1]))
     [] e.op \in {"sin", "cos", "tan", "atan", "asin", "acos", "sqrt", "sqrt_std"} -> Unary(ab, e.op, e.a[1])
     [] IsPairOp(e.op) -> Unary(ab, PairBase(e.op), e.a[2])
     [] e.op = "atan2" -> atan2_fn(e.a[1], e.a[2])
     [] e.op \in {"hypot", "hypot_sym"} -> hypot_fn(ab, e.a[1], e.a[2])
     [] e.op = "a2r" -> angle_to_radians(TypeOf(e.t[1]), e.a[1])
     [] e.op = "sin_angle_aprox" -> sin_angle_aprox(e.a[1])
     [] e.op = "cos_angle_aprox" -> cos_angle_aprox(e.a[1])
     [] e.op = "tab_sin" -> ArrIdx(SinTab, ZToInt(e.a[1]))
     [] e.op = "tab_cos" -> ArrIdx(CosTab, ZToInt(e.a[1]))
     [] e.op = "tab_tan" -> ArrIdx(TanTab, ZToInt(e.a[1]))
     [] e.op = "tab_sqrt" -> ArrIdx(SqrtTab, ZToInt(e.a[1]))
     [] e.op = "sqrt_aprox" -> sqrt_aprox(e.a[1])
     [] e.op = "hypot_aprox" -> hypot_aprox(e.a[1], e.a[2])
     [] e.op = "atan_index_aprox" -> atan_index_aprox(e.a[1])
     [] e.op = "atan_aprox" -> atan_aprox(e.a[1])
     [] e.op = "sin_angle" -> sin_(AngleRad(e.t[1], e.a[1]))
     [] e.op = "cos_angle" -> cos_(AngleRad(e.t[1], e.a[1]))
     [] e.op = "tan_angle" -> tan_fn(AngleRad(e.t[1], e.a[1]))
     [] e.op \in {"add", "sub", "mul", "div"} /\ Len(e.t) = 2 /\ ("f32" \in {e.t[1], e.t[2]}) ->
           LET x == PromF(e.t[1], e.a[1])  y == PromF(e.t[2], e.a[2]) IN
           (CASE e.op = "add" -> fixed_additioni(x, y) [] e.op = "sub" -> fixed_substracti(x, y)
              [] e.op = "mul" -> fixed_multiplyi(x, y) [] e.op = "div" -> fixed_divisionf(x, y))
     [] OTHER -> LowCore(e)
(* results that are floating values *)
HasLowF(e) == e.op \in {"f2d", "f2f"} \/ (e.op \in {"add", "sub", "mul", "div"} /\ Len(e.t) = 2 /\ ("f64" \in {e.t[1], e.t[2]}))
LowFv(e) ==
   CASE e.op = "f2d" -> fixed_to_floating_point(F64, e.a[1])
     [] e.op = "f2f" -> fixed_to_floating_point(F32, e.a[1])
     [] OTHER -> LET x == AsD(e.t[1], e.a[1])  y == AsD(e.t[2], e.a[2]) IN FOp(e.op, x, y)

Fid(ab, e) ==
   IF e.op = "cmp" THEN (IF e.o = LowCmp(e) THEN "same" ELSE "differs")
   ELSE IF HasLowF(e) THEN (IF FEqVal(FDecode(FmtOf(e.ot), e.o), LowFv(e)) THEN "same" ELSE "differs")
   ELSE LET z == LowZ(ab, e) IN
        IF z = NoLow THEN "nolow"
        ELSE IF ZIsPoison(z) THEN (IF e.trap # "" THEN "same" ELSE "differs")
        ELSE IF e.trap = "" /\ e.o = z THEN "same" ELSE "differs"
=============================================================================
