-------------------------------- MODULE FxLowT --------------------------------
(***************************************************************************)
(* LowSpec as a function of an event, all operations (arithmetic core of   *)
(* FxLow plus the floating-point side; the elementary functions are added  *)
(* by FxAlgoT).  Fid(e) compares the recorded result with the prediction.  *)
(***************************************************************************)
EXTENDS FxLow, FxAlgoF, FxContractF

PromF(tag, v) == IF tag = "fx" THEN v
                 ELSE IF IsFltTag(tag) THEN floating_point_to_fixed(FmtOf(tag), FDecode(FmtOf(tag), v))
                 ELSE integral_to_fixed(TypeOf(tag), v)
AsD(tag, v) == IF tag = "f64" THEN FDecode(F64, v) ELSE fixed_to_floating_point(F64, v)

(* results that are fixed_t / integers *)
LowZ(e) ==
   CASE e.op = "fl2f" -> floating_point_to_fixed(FmtOf(e.t[1]), FDecode(FmtOf(e.t[1]), e.a[1]))
     [] e.op = "rt_d" -> floating_point_to_fixed(F64, fixed_to_floating_point(F64, e.a[1]))
     [] e.op = "sqrt_std" -> sqrt_std_math(e.a[1])
     [] e.op \in {"add", "sub", "mul", "div"} /\ Len(e.t) = 2 /\ ("f32" \in {e.t[1], e.t[2]}) ->
           LET x == PromF(e.t[1], e.a[1])  y == PromF(e.t[2], e.a[2]) IN
           (CASE e.op = "add" -> fixed_additioni(x, y) [] e.op = "sub" -> fixed_substracti(x, y)
              [] e.op = "mul" -> fixed_multiplyi(x, y) [] e.op = "div" -> fixed_divisionf(x, y))
     [] OTHER -> LowCore(e)
(* results that are floating values *)
HasLowF(e) == e.op \in {"f2d", "f2f"} \/ (e.op \in {"add", "sub", "mul", "div"} /\ Len(e.t) = 2 /\ ("f64" \in {e.t[1], e.t[2]}))
LowFv(e) ==
   CASE e.op = "f2d" -> fixed_to_floating_point(F64, e.a[1])
     [] e.op = "f2f" -> fixed_to_floating_point(F32, e.a[1])
     [] OTHER -> LET x == AsD(e.t[1], e.a[1])  y == AsD(e.t[2], e.a[2]) IN FOp(e.op, x, y)

Fid(e) ==
   IF e.op = "cmp" THEN (IF e.o = LowCmp(e) THEN "same" ELSE "differs")
   ELSE IF HasLowF(e) THEN (IF FEqVal(FDecode(FmtOf(e.ot), e.o), LowFv(e)) THEN "same" ELSE "differs")
   ELSE LET z == LowZ(e) IN
        IF z = NoLow THEN "nolow"
        ELSE IF ZIsPoison(z) THEN (IF e.trap # "" THEN "same" ELSE "differs")
        ELSE IF e.trap = "" /\ e.o = z THEN "same" ELSE "differs"
=============================================================================
