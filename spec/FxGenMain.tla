------------------------------ MODULE FxGenMain ------------------------------
(* root module of E2: evaluates the job list of one property and writes it as ndjson *)
EXTENDS FxGenT
CoreProps == {"C01", "C02", "C03", "C04", "C06", "C13", "C15", "C18"}
AllJobs(p) == IF p \in CoreProps THEN JobsFor(p) ELSE IF p = "C08" THEN JobsForT("C07") ELSE JobsForT(p)
ASSUME LET js == AllJobs(IOEnv.FX_PROP) IN
       /\ ndJsonSerialize(IOEnv.FX_JOBS, js)
       /\ PrintT(<<"jobs", IOEnv.FX_PROP, Tier, Len(js)>>)
=============================================================================
