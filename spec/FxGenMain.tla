------------------------------ MODULE FxGenMain ------------------------------
(* root module of E2: evaluates the job list of one property and writes it as ndjson *)
EXTENDS FxGenT
(* C08 also compares constant evaluation with run time: more pairs for the four operators, stratified by magnitude *)
Jobs_C08x == FlatSeq([o \in 1..4 |-> LET op == <<"add", "sub", "mul", "div">>[o] IN
                <<RandB(op, <<"fx", "fx">>, NR(2500, 40000), Seed + 300 + o, 47), RandB(op, <<"fx", "fx">>, NR(2500, 40000), Seed + 310 + o, 40),
                  RandB(op, <<"fx", "fx">>, NR(1500, 40000), Seed + 320 + o, 63), RandB(op, <<"fx", "fx">>, NR(1500, 20000), Seed + 330 + o, 33)>>])
CoreProps == {"C01", "C02", "C03", "C04", "C06", "C13", "C15", "C18"}
AllJobs(p) == IF p \in CoreProps THEN JobsFor(p) ELSE IF p = "C08" THEN JobsForT("C07") \o Jobs_C08x ELSE JobsForT(p)
ASSUME LET js == AllJobs(IOEnv.FX_PROP) IN
       /\ ndJsonSerialize(IOEnv.FX_JOBS, js)
       /\ PrintT(<<"jobs", IOEnv.FX_PROP, Tier, Len(js)>>)
=============================================================================
