------------------------------- MODULE FxAlgo -------------------------------
(***************************************************************************)
(* LowSpec, arithmetic core: a line-by-line transcription of the integer   *)
(* part of fixed_lib/include/fixedmath/math.h, types.h and                 *)
(* detail/common.h over the checked C++ primitives of FxPrim.  Operator    *)
(* names are the names in the code.  A raw fixed_t is a Z integer;         *)
(* C++ bool results are the integers 1/0 (so that "poison" can be a        *)
(* result as well).  Width-generic: the same text is the 64-bit library    *)
(* and its reduced-width instances.                                        *)
(***************************************************************************)
EXTENDS FxPrim

B2Z(b)  == IF b THEN Z1 ELSE Z0
ZOr(a, b) == IF ZIsPoison(a) \/ ZIsPoison(b) THEN ZPoison ELSE (a ++ b) -- ZAnd(a, b)   \* a, b >= 0
NotFMask == ZNeg(P(F))                                   \* ~((1<<16)-1) as a signed word

quiet_NaN_result == NaNv

(* types.h: comparison operators compare the raw words *)
op_eq(l, r) == B2Z(l = r)
op_ne(l, r) == B2Z(l # r)
op_lt(l, r) == B2Z(l \prec r)
op_le(l, r) == B2Z(l \preceq r)
op_gt(l, r) == B2Z(r \prec l)
op_ge(l, r) == B2Z(r \preceq l)

(* math.h:46  operator-(fixed_t) : -l.v *)
op_neg(l) == SNeg(l)
(* math.h:161 abs : value.v > 0 ? value.v : -value.v *)
abs_(v) == IF Z0 \prec v THEN v ELSE SNeg(v)
(* math.h:169 isnan : abs(value) == quiet_NaN_result() *)
isnan(v) == LET a == abs_(v) IN IF ZIsPoison(a) THEN ZPoison ELSE B2Z(a = NaNv)

(* common.h:21/55 *)
unsigned_shift_left_signed(d, v) ==
   ToS(ZOr(UShl(ToU(v), d), ZAnd(ToU(v), P(W - 1))))
unsigned_shift_left_unsigned(d, v) == ToS(UShl(ToU(v), d))

(* math.h:55 integral_to_fixed; t is the integral type of value n *)
integral_to_fixed(t, n) ==
   IF (n \preceq MaxIntegral) /\ (ZNeg(MaxIntegral) \preceq n)
   THEN (IF t.signed THEN unsigned_shift_left_signed(F, n) ELSE unsigned_shift_left_unsigned(F, n))
   ELSE quiet_NaN_result

(* math.h:101 fixed_to_integral<T> *)
fixed_to_integral(t, v) ==
   LET tmp == SShr(v, F) IN
   IF ZIsPoison(tmp) THEN ZPoison ELSE IF InT(t, tmp) THEN tmp ELSE Z0

(* math.h:177 operator>>(fixed_t, int) *)
op_shr(l, r) == IF r >= 0 THEN SShr(l, r) ELSE quiet_NaN_result
(* math.h:187 operator<<(fixed_t, int): unsigned shift, sign bit transferred *)
op_shl(l, r) ==
   IF r >= 0
   THEN ToS(ZOr(ZAnd(UShl(ToU(l), r), IntMax), ZAnd(P(W - 1), ToU(l))))
   ELSE quiet_NaN_result
(* math.h:203 operator& *)
op_and(l, r) == SAnd(l, r)

(* math.h:210 fixed_additioni (after "fix: addition and subtraction ..."): the sum wraps in unsigned arithmetic *)
fixed_additioni(lh, rh) ==
   LET result == WAdd(lh, rh) IN
   IF ZIsPoison(result) THEN ZPoison
   ELSE IF Z0 \preceq result
        THEN (IF (lh \prec Z0) /\ (rh \prec Z0) THEN op_neg(quiet_NaN_result) ELSE result)
        ELSE (IF (Z0 \prec lh) /\ (Z0 \prec rh) THEN quiet_NaN_result
              ELSE IF result = IntMin THEN op_neg(quiet_NaN_result) ELSE result)

(* math.h:306 fixed_substracti *)
fixed_substracti(lh, rh) ==
   LET result == WSub(lh, rh) IN
   IF ZIsPoison(result) THEN ZPoison
   ELSE IF Z0 \preceq result
        THEN (IF (lh \prec Z0) /\ (Z0 \prec rh) THEN op_neg(quiet_NaN_result) ELSE result)
        ELSE (IF (Z0 \prec lh) /\ (rh \prec Z0) THEN quiet_NaN_result
              ELSE IF result = IntMin THEN op_neg(quiet_NaN_result) ELSE result)

(* math.h:379 check_multiply_result -- sic: "||" *)
MulGuard == P(W - 1) -- P(F)                              \* 0x7fffffffffff0000
check_multiply_result(r) == (r \prec MulGuard) \/ (ZNeg(MulGuard) \prec r)

(* math.h:394 fixed_multiplyi (after "fix: multiplication ..."): __builtin_mul_overflow on the raw words *)
fixed_multiplyi(lh, rh) ==
   IF ZIsPoison(lh) \/ ZIsPoison(rh) THEN ZPoison
   ELSE LET result == lh ** rh IN
        IF FitsW(result) THEN SShr(result, F) ELSE quiet_NaN_result

(* common.h:33/43 promote_type_to_signed: unsigned n-bit -> signed 2n-bit, but 64 -> int64_t *)
promote_type_to_signed(t, n) == IF t.signed THEN n ELSE IF t.bits >= W THEN Wrap(n) ELSE n

(* math.h:427 fixed_multiply_scalar: the scalar keeps its own type; result must be a finite value *)
fixed_multiply_scalar(lh, t, n) ==
   IF ZIsPoison(lh) \/ ZIsPoison(n) THEN ZPoison
   ELSE LET result == lh ** n IN
        IF FitsW(result) /\ (Lowestv \preceq result) /\ (result \preceq Maxv) THEN result ELSE quiet_NaN_result

(* math.h:489 fixed_divisionf (after "fix: division ..."): 128-bit dividend, range check *)
fixed_divisionf(x, y) ==
   IF ZIsPoison(x) \/ ZIsPoison(y) THEN ZPoison
   ELSE IF y # Z0
        THEN LET result == ZTDiv(x ** P(F), y) IN
             IF (Lowestv \preceq result) /\ (result \preceq Maxv) THEN result ELSE quiet_NaN_result
        ELSE quiet_NaN_result

(* math.h:527 fixed_division_by_scalar *)
fixed_division_by_scalar(lh, t, n) ==
   IF n # Z0
   THEN IF ~t.signed /\ t.bits >= W /\ (IntMax \prec n) THEN Z0
        ELSE LET d == promote_type_to_signed(t, n) IN
             IF t.signed /\ d = ZNeg(Z1) THEN WSub(Z0, lh)                   \* after "fix: fixed / integer traps ... divided by -1"
             ELSE SDiv(lh, d)
   ELSE quiet_NaN_result

(* math.h:564 ceil *)
ceil_(v) ==
   LET result == SAnd(WAdd(v, FMask), NotFMask) IN                 \* unsigned sum (after "fix: ceil overflowed ...")
   IF ZIsPoison(result) THEN ZPoison
   ELSE IF v \preceq result THEN result ELSE quiet_NaN_result
(* math.h:574 floor *)
floor_(v) == SAnd(v, NotFMask)

(* common.h:65 highest_pwr4_clz *)
highest_pwr4_clz(value) ==
   IF value # Z0
   THEN LET c0 == W - Clz(value)
            c1 == IF c0 % 2 = 0 THEN c0 - 1 ELSE c0
        IN SShl(Z1, c1 - 1)
   ELSE Z0

(* math.h:613 sqrt_abacus (after "fix: sqrt_abacus ..."): the loop runs on unsigned W-bit words *)
RECURSIVE abacus_loop(_, _, _)
abacus_loop(value, result, pwr4) ==
   IF ZIsPoison(value) \/ ZIsPoison(result) \/ ZIsPoison(pwr4) THEN ZPoison
   ELSE IF pwr4 = Z0 THEN result
   ELSE LET rp == UAdd(result, pwr4) IN
        IF rp \preceq value
        THEN abacus_loop(WrapU(value -- rp), UShr(UAdd(result, UShl(pwr4, 1)), 1), UShr(pwr4, 2))
        ELSE abacus_loop(value, UShr(result, 1), UShr(pwr4, 2))
sqrt_abacus(v) ==
   IF ZIsPoison(v) THEN ZPoison
   ELSE IF (v \prec Z0) \/ (P(W - F) \preceq v) THEN quiet_NaN_result
   ELSE LET uvalue == UShl(ToU(v), F) IN
        ToS(abacus_loop(uvalue, Z0, ToU(highest_pwr4_clz(uvalue))))
=============================================================================
