------------------------------- MODULE FxFloat -------------------------------
(***************************************************************************)
(* IEEE-754 binary32 / binary64 as far as the library uses them: decoding  *)
(* of bit patterns, + - * / sqrt and integer conversion with               *)
(* round-to-nearest-even, float -> int64 truncation.  Values are exact     *)
(* dyadic rationals over the integer substrate Z:                          *)
(*      <<0, s, m, e>>   finite:  s * m * 2^e,  s in {1,-1}, m >= 0 (Z)    *)
(*      <<1, s>>         infinity with sign s                              *)
(*      <<2>>            NaN                                               *)
(* -0 and +0 are both m = 0 (they compare equal in C++ too).               *)
(***************************************************************************)
EXTENDS FxParams

F32 == [p |-> 24, eb |-> 8]
F64 == [p |-> 53, eb |-> 11]
Bias(fmt) == 2^(fmt.eb - 1) - 1
EMinSub(fmt) == 1 - Bias(fmt) - (fmt.p - 1)          \* exponent of the least subnormal bit

FNaN == <<2>>
FInf(s) == <<1, s>>
FFin(s, m, e) == <<0, s, m, e>>
FZero == FFin(1, Z0, 0)
IsFin(x) == x[1] = 0
IsInf(x) == x[1] = 1
IsFNaN(x) == x[1] = 2
FIsZero(x) == IsFin(x) /\ x[3] = Z0

(* bits: unsigned integer (Z) holding the pattern *)
FDecode(fmt, bits) ==
   LET pm == fmt.p - 1
       sgn == IF ZShr(bits, pm + fmt.eb) %% ZN(2) = Z1 THEN -1 ELSE 1
       E   == ZToInt(ZShr(bits, pm) %% P(fmt.eb))
       Mf  == bits %% P(pm)
   IN IF E = 2^fmt.eb - 1 THEN (IF Mf = Z0 THEN FInf(sgn) ELSE FNaN)
      ELSE IF E = 0 THEN FFin(sgn, Mf, EMinSub(fmt))
      ELSE FFin(sgn, Mf ++ P(pm), E - Bias(fmt) - pm)

(* round the exact value s*m*2^e to the format; mode "ne" nearest-even, "dn" towards -inf, "up" towards +inf *)
FRoundM(fmt, s, m, e, mode) ==
   IF m = Z0 THEN FZero
   ELSE LET L  == ZBitLen(m)
            q0 == (e + L - 1) - (fmt.p - 1)
            q  == IF q0 < EMinSub(fmt) THEN EMinSub(fmt) ELSE q0
        IN IF q <= e THEN FFin(s, ZShl(m, e - q), q)                      \* exact (cannot exceed p bits)
           ELSE LET sh   == q - e
                    mq   == ZShr(m, sh)
                    rem  == m -- ZShl(mq, sh)
                    half == P(sh - 1)
                    up   == CASE mode = "ne" -> (half \prec rem) \/ (rem = half /\ (mq %% ZN(2)) = Z1)
                              [] mode = "dn" -> (s = -1) /\ rem # Z0
                              [] mode = "up" -> (s = 1) /\ rem # Z0
                    mr   == IF up THEN mq ++ Z1 ELSE mq
                IN IF mr = Z0 THEN FZero
                   ELSE IF (ZBitLen(mr) + q - 1) > Bias(fmt) THEN FInf(s)
                   ELSE FFin(s, mr, q)
FRound(fmt, s, m, e) ==
   LET r == FRoundM(fmt, s, m, e, "ne") IN
   IF IsFin(r) /\ r[3] # Z0 /\ (ZBitLen(r[3]) + r[4] - 1) > Bias(fmt) THEN FInf(s) ELSE r

(* exact signed integer n = value / 2^e0 for a finite x with exponent >= e0 *)
Scaled(x, e0) == ZShl(x[3], x[4] - e0) ** ZN(x[2])
MinI(a, b) == IF a <= b THEN a ELSE b
FromSigned(fmt, n, e) == FRound(fmt, IF n \prec Z0 THEN -1 ELSE 1, ZAbs(n), e)

FNeg(x) == IF IsFin(x) THEN FFin(-x[2], x[3], x[4]) ELSE IF IsInf(x) THEN FInf(-x[2]) ELSE x
FAdd(fmt, x, y) ==
   IF IsFNaN(x) \/ IsFNaN(y) THEN FNaN
   ELSE IF IsInf(x) THEN (IF IsInf(y) /\ y[2] # x[2] THEN FNaN ELSE x)
   ELSE IF IsInf(y) THEN y
   ELSE LET e0 == MinI(x[4], y[4]) IN FromSigned(fmt, Scaled(x, e0) ++ Scaled(y, e0), e0)
FSub(fmt, x, y) == FAdd(fmt, x, FNeg(y))
FMul(fmt, x, y) ==
   IF IsFNaN(x) \/ IsFNaN(y) THEN FNaN
   ELSE IF IsInf(x) \/ IsInf(y)
        THEN (IF FIsZero(x) \/ FIsZero(y) THEN FNaN ELSE FInf(x[2] * y[2]))
   ELSE FRound(fmt, x[2] * y[2], x[3] ** y[3], x[4] + y[4])
FDiv(fmt, x, y) ==
   IF IsFNaN(x) \/ IsFNaN(y) THEN FNaN
   ELSE IF IsInf(x) THEN (IF IsInf(y) THEN FNaN ELSE FInf(x[2] * y[2]))
   ELSE IF IsInf(y) THEN FZero
   ELSE IF FIsZero(y) THEN (IF FIsZero(x) THEN FNaN ELSE FInf(x[2] * y[2]))
   ELSE IF FIsZero(x) THEN FZero
   ELSE LET k0 == fmt.p + 3 + ZBitLen(y[3]) - ZBitLen(x[3])
            k  == IF k0 < 0 THEN 0 ELSE k0
            num == ZShl(x[3], k)
            q  == ZTDiv(num, y[3])
            r  == num -- (q ** y[3])
            qs == (q ** ZN(2)) ++ (IF r = Z0 THEN Z0 ELSE Z1)                \* sticky bit appended
        IN FRound(fmt, x[2] * y[2], qs, x[4] - y[4] - k - 1)
FSqrt(fmt, x) ==
   IF IsFNaN(x) THEN FNaN
   ELSE IF FIsZero(x) THEN FZero
   ELSE IF x[2] = -1 THEN FNaN
   ELSE IF IsInf(x) THEN x
   ELSE LET k0 == 2 * fmt.p + 6 - ZBitLen(x[3])
            k1 == IF k0 < 0 THEN 0 ELSE k0
            k  == IF (x[4] - k1) % 2 = 0 THEN k1 ELSE k1 + 1
            mm == ZShl(x[3], k)
            sq == ZISqrt(mm)
            st == IF (sq ** sq) = mm THEN Z0 ELSE Z1
        IN FRound(fmt, 1, (sq ** ZN(2)) ++ st, ((x[4] - k) \div 2) - 1)
FFromInt(fmt, n) == FromSigned(fmt, n, 0)
(* static_cast<int64_t>( x ): truncation; out of range, inf and NaN are undefined behaviour *)
FTruncZ(x) == IF x[4] >= 0 THEN ZShl(x[3], x[4]) ** ZN(x[2]) ELSE ZShr(x[3], -x[4]) ** ZN(x[2])
FToInt(x) == IF ~IsFin(x) THEN ZPoison ELSE LET t == FTruncZ(x) IN IF FitsW(t) THEN t ELSE ZPoison
(* x < y for finite x, y *)
FLtFin(x, y) == LET e0 == MinI(x[4], y[4]) IN Scaled(x, e0) \prec Scaled(y, e0)
FLt(x, y) ==
   IF IsFNaN(x) \/ IsFNaN(y) THEN FALSE
   ELSE IF IsInf(x) THEN (x[2] = -1 /\ ~(IsInf(y) /\ y[2] = -1))
   ELSE IF IsInf(y) THEN y[2] = 1
   ELSE FLtFin(x, y)
FEqVal(x, y) == (IsFNaN(x) /\ IsFNaN(y)) \/ (IsInf(x) /\ IsInf(y) /\ x[2] = y[2])
                \/ (IsFin(x) /\ IsFin(y) /\ ~FLtFin(x, y) /\ ~FLtFin(y, x))
(* unit in the last place of the format at the magnitude of the exact value m*2^e *)
UlpExp(fmt, m, e) == LET q0 == (e + ZBitLen(m) - 1) - (fmt.p - 1) IN IF q0 < EMinSub(fmt) THEN EMinSub(fmt) ELSE q0
Representable(fmt, m, e) == m = Z0 \/ LET r == FRoundM(fmt, 1, m, e, "dn") IN IsFin(r) /\ ~FLtFin(r, FFin(1, m, e)) /\ ~FLtFin(FFin(1, m, e), r)
(* the bit pattern (unsigned Z) of a finite value of the format (as produced by FRound), infinity or NaN *)
RECURSIVE NormM(_, _, _)
NormM(fmt, m, e) == IF ZBitLen(m) >= fmt.p \/ e <= EMinSub(fmt) THEN <<m, e>> ELSE NormM(fmt, ZShl(m, 1), e - 1)
FEncode(fmt, x) ==
   LET pm == fmt.p - 1
       sb(s) == IF s = -1 THEN P(pm + fmt.eb) ELSE Z0
   IN IF IsFNaN(x) THEN ZShl(ZN(2^fmt.eb - 1), pm) ++ P(pm - 1)
      ELSE IF IsInf(x) THEN sb(x[2]) ++ ZShl(ZN(2^fmt.eb - 1), pm)
      ELSE IF x[3] = Z0 THEN sb(x[2])
      ELSE LET n == NormM(fmt, x[3], x[4]) IN
           IF ZBitLen(n[1]) < fmt.p THEN sb(x[2]) ++ n[1]                                   \* subnormal
           ELSE sb(x[2]) ++ ZShl(ZN(n[2] + pm + Bias(fmt)), pm) ++ (n[1] -- P(pm))
=============================================================================
