---- MODULE MC_Closure_TTrace_1790492923 ----
EXTENDS Sequences, TLCExt, Toolbox, Naturals, TLC, MC_Closure

_expression ==
    LET MC_Closure_TEExpression == INSTANCE MC_Closure_TEExpression
    IN MC_Closure_TEExpression!expression
----

_trace ==
    LET MC_Closure_TETrace == INSTANCE MC_Closure_TETrace
    IN MC_Closure_TETrace!trace
----

_inv ==
    ~(
        TLCGet("level") = Len(_TETrace)
        /\
        last = ([op |-> "neg", t |-> <<"fx">>, a |-> <<-128>>, r |-> 0, ot |-> "fx"])
        /\
        v = (-128)
        /\
        ub = (TRUE)
    )
----

_init ==
    /\ v = _TETrace[1].v
    /\ last = _TETrace[1].last
    /\ ub = _TETrace[1].ub
----

_next ==
    /\ \E i,j \in DOMAIN _TETrace:
        /\ \/ /\ j = i + 1
              /\ i = TLCGet("level")
        /\ v  = _TETrace[i].v
        /\ v' = _TETrace[j].v
        /\ last  = _TETrace[i].last
        /\ last' = _TETrace[j].last
        /\ ub  = _TETrace[i].ub
        /\ ub' = _TETrace[j].ub

\* Uncomment the ASSUME below to write the states of the error trace
\* to the given file in Json format. Note that you can pass any tuple
\* to `JsonSerialize`. For example, a sub-sequence of _TETrace.
    \* ASSUME
    \*     LET J == INSTANCE Json
    \*         IN J!JsonSerialize("MC_Closure_TTrace_1790492923.json", _TETrace)

=============================================================================

 Note that you can extract this module `MC_Closure_TEExpression`
  to a dedicated file to reuse `expression` (the module in the 
  dedicated `MC_Closure_TEExpression.tla` file takes precedence 
  over the module `MC_Closure_TEExpression` below).

---- MODULE MC_Closure_TEExpression ----
EXTENDS Sequences, TLCExt, Toolbox, Naturals, TLC, MC_Closure

expression == 
    [
        \* To hide variables of the `MC_Closure` spec from the error trace,
        \* remove the variables below.  The trace will be written in the order
        \* of the fields of this record.
        v |-> v
        ,last |-> last
        ,ub |-> ub
        
        \* Put additional constant-, state-, and action-level expressions here:
        \* ,_stateNumber |-> _TEPosition
        \* ,_vUnchanged |-> v = v'
        
        \* Format the `v` variable as Json value.
        \* ,_vJson |->
        \*     LET J == INSTANCE Json
        \*     IN J!ToJson(v)
        
        \* Lastly, you may build expressions over arbitrary sets of states by
        \* leveraging the _TETrace operator.  For example, this is how to
        \* count the number of times a spec variable changed up to the current
        \* state in the trace.
        \* ,_vModCount |->
        \*     LET F[s \in DOMAIN _TETrace] ==
        \*         IF s = 1 THEN 0
        \*         ELSE IF _TETrace[s].v # _TETrace[s-1].v
        \*             THEN 1 + F[s-1] ELSE F[s-1]
        \*     IN F[_TEPosition - 1]
    ]

=============================================================================



Parsing and semantic processing can take forever if the trace below is long.
 In this case, it is advised to uncomment the module below to deserialize the
 trace from a generated binary file.

\*
\*---- MODULE MC_Closure_TETrace ----
\*EXTENDS IOUtils, TLC, MC_Closure
\*
\*trace == IODeserialize("MC_Closure_TTrace_1790492923.bin", TRUE)
\*
\*=============================================================================
\*

---- MODULE MC_Closure_TETrace ----
EXTENDS TLC, MC_Closure

trace == 
    <<
    ([last |-> [op |-> "init", t |-> <<>>, a |-> <<>>, r |-> 0, ot |-> "fx"],v |-> -125,ub |-> FALSE]),
    ([last |-> [op |-> "floor", t |-> <<"fx">>, a |-> <<-125>>, r |-> 0, ot |-> "fx"],v |-> -128,ub |-> FALSE]),
    ([last |-> [op |-> "neg", t |-> <<"fx">>, a |-> <<-128>>, r |-> 0, ot |-> "fx"],v |-> -128,ub |-> TRUE])
    >>
----


=============================================================================

---- CONFIG MC_Closure_TTrace_1790492923 ----
CONSTANTS
    W = 8
    F = 2
    IB = 3
    Std = 17

INVARIANT
    _inv

CHECK_DEADLOCK
    \* CHECK_DEADLOCK off because of PROPERTY or INVARIANT above.
    FALSE

INIT
    _init

NEXT
    _next

CONSTANT
    _TETrace <- _trace

ALIAS
    _expression
=============================================================================
\* Generated on Sun Sep 27 07:08:46 UTC 2026