------------------------------- MODULE FxLaws -------------------------------
(***************************************************************************)
(* C17: the algebraic laws, as programs of the register machine.           *)
(* A law is a TAIL of instructions over three operand registers ra, rb, rc *)
(* (which may hold loaded constants or results of earlier operations) and  *)
(* fresh result registers f, f+1, ..., plus a predicate on the registers   *)
(* when the tail has run.  Programs are generated from this module by TLC  *)
(* (FxGenMain: landmark instances; FxProgGen under tlc -simulate: random   *)
(* prefixes whose results feed the law), executed by the real library, and *)
(* the recorded run is judged here again: the shape of the recorded tail   *)
(* must be the law's tail (else the trace is malformed) and the predicate  *)
(* must hold (else C17 is violated).                                       *)
(***************************************************************************)
EXTENDS FxContract

LawNames == {"add_comm", "mul_comm", "sub_neg", "sub_self", "mul_one", "mul_zero", "div_one", "div_self",
             "add_sub_cancel", "add_assoc", "mul_n_sum", "mul_div_n", "add_mono"}
NeedsN(name) == name \in {"mul_n_sum", "mul_div_n"}
Operands(name) == CASE name \in {"add_assoc", "add_mono"} -> 3
                    [] name \in {"add_comm", "mul_comm", "sub_neg", "add_sub_cancel"} -> 2
                    [] OTHER -> 1

FF == <<"fx", "fx">>
FI(tg) == <<"fx", tg>>          \* fixed op integer of type tg
I(op, t, d, s, imm) == [op |-> op, t |-> t, d |-> d, s |-> s, imm |-> imm]
RR2(op, d, x, y) == I(op, FF, d, <<x, y>>, <<Z0, Z0>>)
Ld(d, v) == I("load", <<"fx">>, d, <<0>>, <<v>>)

(* the instruction tail of a law; n is the integer operand (Z) of the two scalar laws and tg its C++ type *)
LawTailOf(name, ra, rb, rc, f, n, tg) ==
   CASE name = "add_comm" -> <<RR2("add", f, ra, rb), RR2("add", f + 1, rb, ra)>>
     [] name = "mul_comm" -> <<RR2("mul", f, ra, rb), RR2("mul", f + 1, rb, ra)>>
     [] name = "sub_neg"  -> <<RR2("sub", f, ra, rb), I("neg", <<"fx">>, f + 1, <<rb>>, <<Z0>>), RR2("add", f + 2, ra, f + 1)>>
     [] name = "sub_self" -> <<RR2("sub", f, ra, ra)>>
     [] name = "mul_one"  -> <<Ld(f, OneFx), RR2("mul", f + 1, ra, f), I("mul", FI("i32"), f + 2, <<ra, 0>>, <<Z0, Z1>>)>>
     [] name = "mul_zero" -> <<Ld(f, Z0), RR2("mul", f + 1, ra, f), I("mul", FI("i32"), f + 2, <<ra, 0>>, <<Z0, Z0>>)>>
     [] name = "div_one"  -> <<Ld(f, OneFx), RR2("div", f + 1, ra, f), I("div", FI("i32"), f + 2, <<ra, 0>>, <<Z0, Z1>>)>>
     [] name = "div_self" -> <<RR2("div", f, ra, ra)>>
     [] name = "add_sub_cancel" -> <<RR2("add", f, ra, rb), RR2("sub", f + 1, f, rb)>>
     [] name = "add_assoc" -> <<RR2("add", f, ra, rb), RR2("add", f + 1, f, rc), RR2("add", f + 2, rb, rc), RR2("add", f + 3, ra, f + 2)>>
     [] name = "mul_n_sum" ->
           <<I("mul", FI(tg), f, <<ra, 0>>, <<Z0, n>>)>>
           \o (IF ZToInt(n) >= 2 THEN <<RR2("add", f + 1, ra, ra)>> \o [i \in 1..(ZToInt(n) - 2) |-> RR2("add", f + 1, f + 1, ra)] ELSE <<>>)
     [] name = "mul_div_n" -> <<I("mul", FI(tg), f, <<ra, 0>>, <<Z0, n>>), I("div", FI(tg), f + 1, <<f, 0>>, <<Z0, n>>)>>
     [] name = "add_mono"  -> <<RR2("add", f, ra, rc), RR2("add", f + 1, rb, rc)>>

NoNaN(outs) == \A i \in DOMAIN outs : ~IsNaN(outs[i])
Small47(x) == ZAbs(x) \prec DomLim

(* is the law's hypothesis met (the run then counts as a non-trivial instance) *)
LawHyp(name, ra, rb, rc, f, n, env, outs) ==
   LET a == env[ra]  b == env[rb]  c == env[rc] IN
   CASE name \in {"add_comm", "mul_comm", "sub_neg"} -> Finite(a) /\ Finite(b)
     [] name = "sub_self" -> Finite(a)
     [] name \in {"mul_one", "mul_zero", "div_one"} -> Finite(a) /\ Small47(a)
     [] name = "div_self" -> Finite(a) /\ Small47(a) /\ a # Z0
     [] name = "add_sub_cancel" -> Finite(a) /\ Finite(b) /\ NoNaN(outs)
     [] name = "add_assoc" -> Finite(a) /\ Finite(b) /\ Finite(c) /\ NoNaN(outs)
     [] name = "mul_n_sum" -> Finite(a) /\ (Z1 \preceq n) /\ NoNaN(outs)
     [] name = "mul_div_n" -> Finite(a) /\ n # Z0 /\ NoNaN(outs)
     [] name = "add_mono" -> Finite(a) /\ Finite(b) /\ Finite(c) /\ (a \prec b) /\ NoNaN(outs)

(* the law itself, on the registers after the tail has run *)
LawConcl(name, ra, rb, rc, f, n, env) ==
   LET a == env[ra] IN
   CASE name \in {"add_comm", "mul_comm"} -> env[f] = env[f + 1]
     [] name = "sub_neg" -> env[f] = env[f + 2]
     [] name = "sub_self" -> env[f] = Z0
     [] name = "mul_one" -> env[f + 1] = a /\ env[f + 2] = a
     [] name = "mul_zero" -> env[f + 1] = Z0 /\ env[f + 2] = Z0
     [] name = "div_one" -> env[f + 1] = a /\ env[f + 2] = a
     [] name = "div_self" -> env[f] = OneFx
     [] name = "add_sub_cancel" -> env[f + 1] = a
     [] name = "add_assoc" -> env[f + 1] = env[f + 3]
     [] name = "mul_n_sum" -> env[f] = (IF ZToInt(n) >= 2 THEN env[f + 1] ELSE a)
     [] name = "mul_div_n" -> env[f + 1] = a
     [] name = "add_mono" -> env[f] \preceq env[f + 1]
=============================================================================
