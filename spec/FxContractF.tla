---------------------------- MODULE FxContractF ----------------------------
(***************************************************************************)
(* HighSpec for the floating-point side: C05 (float/double <-> fixed) and  *)
(* C16 (mixed-type operators).  Floating operands and results are logged   *)
(* as IEEE bit patterns and decoded to exact dyadic values (FxFloat).      *)
(***************************************************************************)
EXTENDS FxContract, FxFloat

FmtOf(tag) == IF tag = "f32" THEN F32 ELSE F64
IsFltTag(tag) == tag \in {"f32", "f64"}
MaxIntF == FFin(1, MaxIntegral, 0)                          \* 2147483647.0
FAbsV(x) == IF IsFin(x) THEN FFin(1, x[3], x[4]) ELSE x
(* |value of finite x - value of finite y| scaled by 2^-e0 *)
DistAt(x, y, e0) == ZAbs(Scaled(x, e0) -- Scaled(y, e0))
FxAsF(raw) == FFin(IF raw \prec Z0 THEN -1 ELSE 1, ZAbs(raw), -F)    \* the exact value of a raw fixed_t

(* float -> fixed: nearest value, ties away from zero, up to one rounding of the "+- 0.5" step in the source format *)
FltToFxOk(fmt, v, out) ==
   IF ~IsFin(v) \/ ~FLtFin(FAbsV(v), MaxIntF) THEN IsNaN(out)
   ELSE LET m  == v[3]
            es == v[4] + F                                     \* s = v * 2^F = m * 2^es
            e0 == MinI(es, -1)
            T  == ZShl(m, es - e0) ++ P(-1 - e0)               \* |t| = |s| + 1/2 at exponent e0
        IN IF Representable(fmt, T, e0)
           THEN out = ZShr(T, -e0) ** ZN(v[2])                  \* exactly trunc(t): round half away from zero
           ELSE LET u  == UlpExp(fmt, T, e0)
                    ec == MinI(e0, u - 1)
                    S  == ZShl(m, es - ec) ** ZN(v[2])
                IN ZAbs(ZShl(out, -ec) -- S) \preceq (P(-1 - ec) ++ P(u - 1 - ec))

(* a nearest value of the format to the exact x = s*m*2^e (either neighbour on a tie) *)
NearestOk(fmt, s, m, e, o) ==
   LET lo == FRoundM(fmt, s, m, e, "dn")
       hi == FRoundM(fmt, s, m, e, "up")
       x  == FFin(s, m, e)
       e0 == MinI(MinI(IF IsFin(lo) /\ lo[3] # Z0 THEN lo[4] ELSE e, IF IsFin(hi) /\ hi[3] # Z0 THEN hi[4] ELSE e), e)
   IN /\ IsFin(o) /\ IsFin(lo) /\ IsFin(hi)
      /\ (FEqVal(o, lo) /\ (DistAt(lo, x, e0) \preceq DistAt(hi, x, e0)))
         \/ (FEqVal(o, hi) /\ (DistAt(hi, x, e0) \preceq DistAt(lo, x, e0)))

Rel_C05(e) == e.op \in {"fl2f", "f2d", "f2f", "rt_d"}
Ok_C05(e) ==
   CASE e.op = "fl2f" -> FltToFxOk(FmtOf(e.t[1]), FDecode(FmtOf(e.t[1]), e.a[1]), e.o)
     [] e.op = "f2d" -> (Finite(e.a[1]) /\ (ZAbs(e.a[1]) \preceq P(53))) => FEqVal(FDecode(F64, e.o), FxAsF(e.a[1]))
     [] e.op = "f2f" -> Finite(e.a[1]) => NearestOk(F32, IF e.a[1] \prec Z0 THEN -1 ELSE 1, ZAbs(e.a[1]), -F, FDecode(F32, e.o))
     (* round trip.  The statement says |x| < 2^31, but its first sentence makes every double >= 2^31 - 1 convert to NaN, so on
        [2^31 - 1, 2^31) the two sentences contradict each other; the identity is demanded where both agree: |x| < 2^31 - 1 *)
     [] e.op = "rt_d" -> (ZAbs(e.a[1]) \prec (MaxIntegral ** OneFx)) => e.o = e.a[1]
     [] OTHER -> TRUE

-----------------------------------------------------------------------------
(* C16: mixed-type operators *)
IsMixed(e) == e.op \in {"add", "sub", "mul", "div"} /\ Len(e.t) = 2 /\ (e.t[1] # "fx" \/ e.t[2] # "fx") /\ (e.t[1] = "fx" \/ e.t[2] = "fx")
FxIdx(e) == IF e.t[1] = "fx" THEN 1 ELSE 2
Rel_C16(e) == IsMixed(e) /\ e.hasref /\ Finite(e.a[FxIdx(e)])
(* double(a): the library's fixed_to_floating_point<double> = round(raw) / 65536 *)
FxToDouble(raw) == LET r == FFromInt(F64, raw) IN IF IsFin(r) THEN FFin(r[2], r[3], r[4] - F) ELSE r
FOp(op, x, y) == CASE op = "add" -> FAdd(F64, x, y) [] op = "sub" -> FSub(F64, x, y)
                   [] op = "mul" -> FMul(F64, x, y) [] op = "div" -> FDiv(F64, x, y)
Ok_C16(e) ==
   Rel_C16(e) =>
      LET i == FxIdx(e)  tg == e.t[3 - i] IN
      IF tg = "f64"
      THEN (* the result is a double: the IEEE result on double(a) and the operand, in the written order *)
           /\ e.ot = "f64"
           /\ LET d == FDecode(F64, e.a[3 - i])
                  fa == FxToDouble(e.a[i])
              IN FEqVal(FDecode(F64, e.o), IF i = 1 THEN FOp(e.op, fa, d) ELSE FOp(e.op, d, fa))
      ELSE /\ e.ot = "fx"
           /\ IF IsIntTag(tg) /\ e.op = "mul" THEN Ok_C02(e)                     \* the integer is used exactly
              ELSE IF IsIntTag(tg) /\ e.op = "div" /\ i = 1 THEN Ok_C03(e)
              ELSE ~IsNaN(e.conv) => e.o = e.ref                                  \* equals the promoted computation
=============================================================================
