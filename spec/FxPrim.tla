------------------------------- MODULE FxPrim -------------------------------
(***************************************************************************)
(* The C++ abstract machine's arithmetic on fixed_internal (a W-bit signed *)
(* integer) as far as the library uses it.  Every primitive returns a      *)
(* value or ZPoison when C++ says "undefined behaviour" (signed overflow,  *)
(* bad shift, INT_MIN / -1, division by zero, index out of bounds).        *)
(*                                                                         *)
(* CONSTANT Mach selects what an overflowing + - * << does instead:        *)
(*   Mach = FALSE : ZPoison            (the language semantics)            *)
(*   Mach = TRUE  : two's complement wrap-around (what x86-64 code does    *)
(*                  when the optimiser has not exploited the UB)           *)
(* Division traps stay ZPoison in both modes.                              *)
(***************************************************************************)
EXTENDS FxParams

CONSTANT Mach

Ovf(x) == IF FitsW(x) THEN x ELSE IF Mach THEN Wrap(x) ELSE ZPoison

SAdd(a, b) == IF ZIsPoison(a) \/ ZIsPoison(b) THEN ZPoison ELSE Ovf(a ++ b)
SSub(a, b) == IF ZIsPoison(a) \/ ZIsPoison(b) THEN ZPoison ELSE Ovf(a -- b)
SMul(a, b) == IF ZIsPoison(a) \/ ZIsPoison(b) THEN ZPoison ELSE Ovf(a ** b)
SNeg(a)    == IF ZIsPoison(a) THEN ZPoison ELSE Ovf(ZNeg(a))
SDiv(a, b) == IF ZIsPoison(a) \/ ZIsPoison(b) THEN ZPoison
              ELSE IF b = Z0 THEN ZPoison                               \* SIGFPE
              ELSE IF a = IntMin /\ b = ZN(-1) THEN ZPoison             \* SIGFPE on x86
              ELSE ZTDiv(a, b)
SRem(a, b) == IF ZIsPoison(a) \/ ZIsPoison(b) THEN ZPoison
              ELSE IF b = Z0 THEN ZPoison
              ELSE IF a = IntMin /\ b = ZN(-1) THEN ZPoison
              ELSE ZTRem(a, b)
(* x << r on a signed W-bit value, r a plain integer *)
SShl(a, r) == IF ZIsPoison(a) \/ r < 0 \/ r >= W THEN ZPoison
              ELSE IF Std >= 20 \/ Mach THEN Wrap(ZShl(a, r))
              ELSE IF (a \prec Z0) \/ ~FitsW(ZShl(a, r)) THEN ZPoison ELSE ZShl(a, r)
(* x >> r, arithmetic *)
SShr(a, r) == IF ZIsPoison(a) \/ r < 0 \/ r >= W THEN ZPoison ELSE ZShr(a, r)
(* unsigned W-bit arithmetic never overflows *)
ToU(a)     == IF ZIsPoison(a) THEN ZPoison ELSE WrapU(a)
ToS(u)     == IF ZIsPoison(u) THEN ZPoison ELSE Wrap(u)
UAdd(a, b) == IF ZIsPoison(a) \/ ZIsPoison(b) THEN ZPoison ELSE WrapU(a ++ b)
(* static_cast<int64_t>( uint64_t(a) +- uint64_t(b) ): modular, never undefined *)
WAdd(a, b) == IF ZIsPoison(a) \/ ZIsPoison(b) THEN ZPoison ELSE Wrap(a ++ b)
WSub(a, b) == IF ZIsPoison(a) \/ ZIsPoison(b) THEN ZPoison ELSE Wrap(a -- b)
UMul(a, b) == IF ZIsPoison(a) \/ ZIsPoison(b) THEN ZPoison ELSE WrapU(a ** b)
UShl(a, r) == IF ZIsPoison(a) \/ r < 0 \/ r >= W THEN ZPoison ELSE WrapU(ZShl(a, r))
UShr(a, r) == IF ZIsPoison(a) \/ r < 0 \/ r >= W THEN ZPoison ELSE ZShr(a, r)
(* bitwise and of two signed words (two's complement) *)
SAnd(a, b) == IF ZIsPoison(a) \/ ZIsPoison(b) THEN ZPoison ELSE Wrap(ZAnd(WrapU(a), WrapU(b)))
(* number of leading zero bits of an unsigned W-bit word *)
Clz(u)     == W - ZBitLen(u)
(* table access *)
ArrIdx(tab, i) == IF i < 0 \/ i >= Len(tab) THEN ZPoison ELSE tab[i + 1]
=============================================================================
