------------------------------- MODULE FxGenT -------------------------------
(***************************************************************************)
(* E2 for the elementary functions and tables (C09-C12, C14, C19, C20):    *)
(* complete sweeps of the small domains the properties name, dense sweeps  *)
(* around every case boundary of the algorithms (multiples of phi/4, the   *)
(* atan segment bounds, 0.6 in asin, 2^30 / 2^16 in hypot), octave grids   *)
(* for the unbounded domains, and the pair events of the relational        *)
(* clauses (x,-x), (x, x + k*period), (x, x + delta).                      *)
(***************************************************************************)
EXTENDS FxGen, FxFloat, FxLaws

Phi == ZN(205887)
HalfPhi == ZN(102944)
TwoPhi == ZN(411774)
QuarterPhi == ZN(51472)

Pair(op, x, y) == Call(op, <<"fx", "fx">>, <<x, y>>)
(* seeded random pairs expanded by the driver: mode "neg" (x,-x), "delta" (x, x+d), "period" (x, x + k*period) *)
RandPair(op, n, sd, mb, mode, period, nonneg) ==
   [k |-> "rand", op |-> op, t |-> <<"fx", "fx">>, n |-> n, seed |-> sd, maxbits |-> mb, pair |-> mode, period |-> Enc(period), nonneg |-> nonneg,
    asg |-> 0, via |-> "", ot |-> "fx"]
(* 64 points in every octave [2^k, 2^(k+1)) for k in lo..hi *)
Octaves(op, lo, hi, pts) == [i \in 1..(hi - lo + 1) |-> SweepZ(op, "fx", P(lo + i - 1), P(lo + i) -- Z1, ZMax(Z1, P(lo + i - 1) // ZN(pts)))]
OctavesNeg(op, lo, hi, pts) == [i \in 1..(hi - lo + 1) |-> SweepZ(op, "fx", ZNeg(P(lo + i)) ++ Z1, ZNeg(P(lo + i - 1)), ZMax(Z1, P(lo + i - 1) // ZN(pts)))]

(* ---- C09 ------------------------------------------------------------------------------------------ *)
PhiMultiples == {ZN(k) ** QuarterPhi : k \in (-9)..9} \cup {ZN(k) ** HalfPhi : k \in (-5)..5} \cup {ZN(k) ** Phi : k \in (-2)..2}
PerK == {ZN(1), ZN(-1), ZN(2), ZN(-2), ZN(3), ZN(-3), ZN(1000), ZN(-1000), ZN(170892343), ZN(-170892343), ZN(1000000000), ZN(-1000000000),
         P(40), ZNeg(P(40)), P(43), ZNeg(P(43))}
WidthEdges == UNION {{P(k) -- Z1, P(k), P(k) ++ Z1, P(k) -- HalfPhi, (P(k) -- HalfPhi) -- Z1, (P(k) -- HalfPhi) ++ Z1, P(k) -- ZN(50000), P(k) -- TwoPhi} : k \in {15, 16, 24, 31, 32, 33, 40, 46, 47, 48, 53, 61}}
PerX == PM(WidthEdges) \cup {Z0, Z1, ZN(-1), ZN(51472), ZN(-51472), HalfPhi, ZNeg(HalfPhi), HalfPhi ++ Z1, HalfPhi -- Z1, Phi, ZNeg(Phi), ZN(308831), ZN(308832),
         ZN(-102945), ZN(-102943), TwoPhi, ZNeg(TwoPhi), ZN(65536), ZN(-65536), ZN(12345), ZN(-54321), ZN(400000), ZN(-400000), P(45), ZNeg(P(45))}
PerPairs == {<<x, x ++ (k ** TwoPhi)>> : x \in PerX, k \in PerK} \cup {<<x, x -- ((x // TwoPhi) ** TwoPhi)>> : x \in PerX}
Jobs_C09 ==
   FlatSeq([f \in 1..2 |-> LET op == <<"sin", "cos">>[f] IN
      <<Sweep(op, "fx", ZNeg(TwoPhi) ++ ZN(Seed % 13), TwoPhi, NR(13, 1)), Sweep(op, "fx", ZNeg(TwoPhi), TwoPhi, NR(4099, 1))>>
      \o S2Q({Sweep(op, "fx", m -- ZN(48), m ++ ZN(48), 1) : m \in PhiMultiples})
      \o S2Q({Sweep(op, "fx", m -- ZN(2), m ++ ZN(2), 1) : m \in {ZNeg(TwoPhi) ++ ZN(2), TwoPhi -- ZN(2)}})
      \o S2Q({Pair(op \o "_pair", p[1], p[2]) : p \in {q \in PerPairs : (ZAbs(q[2]) \prec P(46))}})
      \o <<RandPair(op \o "_pair", NR(3000, 200000), Seed + f, 62, "period", TwoPhi, 0), RandPair(op \o "_pair", NR(1500, 100000), Seed + 2 + f, 33, "period", TwoPhi, 0),
           RandPair(op \o "_pair", NR(1500, 100000), Seed + 4 + f, 48, "period", TwoPhi, 0)>>])

(* ---- C10 ------------------------------------------------------------------------------------------ *)
TanPeriodK == {Z1, ZN(2), ZN(3), ZN(7), ZN(1000), ZN(1234567), P(40)}
TanX == {x \in WidthEdges : Z0 \preceq x} \cup {P(50), P(58), P(59) -- Z1, P(59), P(59) ++ ZN(12345), P(60), P(61), P(61) ++ P(60), P(62) -- TwoPhi} \cup {Z0, Z1, ZN(100), ZN(25736), QuarterPhi -- Z1, QuarterPhi, QuarterPhi ++ Z1, ZN(65536), HalfPhi -- ZN(2), HalfPhi -- Z1, HalfPhi,
         HalfPhi ++ Z1, HalfPhi ++ ZN(2), ZN(150000), ZN(161220), ZN(161221), Phi -- Z1, Phi, Phi ++ Z1, ZN(205886), ZN(300000), TwoPhi, P(30), P(45) ++ ZN(77)}
Jobs_C10 ==
   <<Sweep("tan", "fx", ZNeg(Phi) ++ ZN(Seed % 7), Phi, NR(7, 1))>>
   \o S2Q({Sweep("tan", "fx", m -- ZN(64), m ++ ZN(64), 1) : m \in {ZN(k) ** QuarterPhi : k \in (-4)..4}})
   \o S2Q({Call("tan", <<"fx">>, <<x>>) : x \in PM({HalfPhi ++ (k ** Phi) : k \in TanPeriodK} \cup {(HalfPhi ++ (k ** Phi)) ++ Z1 : k \in TanPeriodK}
                                                   \cup {(HalfPhi ++ (k ** Phi)) -- Z1 : k \in TanPeriodK} \cup TanX)})
   \o S2Q({Pair("tan_pair", x, ZNeg(x)) : x \in PM(TanX)})
   \o S2Q({Pair("tan_pair", x, x ++ (k ** Phi)) : x \in TanX, k \in TanPeriodK})
   \o S2Q({Pair("tan_pair", x, x -- ((x // Phi) ** Phi)) : x \in TanX})
   \o <<Sweep("tan", "fx", P(40), P(40) ++ ZN(4000), NR(7, 1)),
        RandPair("tan_pair", NR(3000, 200000), Seed + 1, 62, "period", Phi, 1), RandPair("tan_pair", NR(1500, 100000), Seed + 2, 33, "period", Phi, 1),
        RandPair("tan_pair", NR(3000, 200000), Seed + 3, 62, "neg", Phi, 0), RandB("tan", <<"fx">>, NR(3000, 200000), Seed + 4, 62)>>

(* ---- C11 ------------------------------------------------------------------------------------------ *)
AtanSeg == {ZN(28672), ZN(45056), ZN(77824), ZN(159744)}
AtanX == {Z0, Z1, ZN(2), ZN(65536), ZN(28671), ZN(28672), ZN(45055), ZN(45056), ZN(77823), ZN(77824), ZN(159743), ZN(159744), P(20), P(30), P(31), P(40), P(45),
          P(46), DomLim -- Z1, ZN(57) ** P(40), ZN(58) ** P(40)}
A2Lm == PM({Z0, Z1, ZN(2), ZN(255), ZN(65535), ZN(65536), ZN(65537), P(13), P(15), P(20), P(29), P(30), P(31), P(32), P(40), P(46), DomLim -- Z1})
Jobs_C11 ==
   <<Sweep("atan", "fx", ZN(Seed % 13), P(20), NR(13, 1)), Sweep("atan", "fx", ZNeg(P(18)) ++ ZN(Seed % 17), Z0, NR(17, 1))>>
   \o S2Q({Sweep("atan", "fx", m -- ZN(40), m ++ ZN(40), 1) : m \in PM(AtanSeg)})
   \o Octaves("atan", 20, 46, NR(12, 256)) \o OctavesNeg("atan", 20, 46, NR(4, 64))
   \o S2Q({Call("atan", <<"fx">>, <<x>>) : x \in PM(AtanX)})
   \o S2Q({Pair("atan_pair", x, ZNeg(x)) : x \in PM(AtanX)})
   \o S2Q({Pair("atan_pair", x, x ++ d) : x \in PM(AtanX), d \in {Z1, ZN(2), ZN(100), ZN(65536)}})
   \o FlatSeq([i \in 1..(IF Thorough THEN 40 ELSE 8) |-> S2Q({Pair("atan_pair", ZN(i * 5003) ++ d, (ZN(i * 5003) ++ d) ++ Z1) : d \in {ZN(j) : j \in 0..40}})])
   \o S2Q({Call("atan2", <<"fx", "fx">>, <<y, x>>) : y \in A2Lm, x \in A2Lm})
   \o <<RandPair("atan_pair", NR(3000, 200000), Seed + 5, 47, "neg", Phi, 0), RandPair("atan_pair", NR(4000, 300000), Seed + 6, 47, "delta", Phi, 0),
        RandPair("atan_pair", NR(3000, 200000), Seed + 7, 22, "delta", Phi, 0)>>
   \o <<[RandM("atan2", <<"fx", "fx">>, NR(2000, 100000), Seed + 8, "related") EXCEPT !.maxbits = 47], RandB("atan2", <<"fx", "fx">>, NR(3000, 300000), Seed + 1, 47), RandB("atan2", <<"fx", "fx">>, NR(1500, 100000), Seed + 2, 30),
        RandB("atan2", <<"fx", "fx">>, NR(1500, 100000), Seed + 3, 18), RandB("atan", <<"fx">>, NR(5000, 200000), Seed + 4, 47)>>

(* ---- C12 ------------------------------------------------------------------------------------------ *)
AsinX == PM({Z0, Z1, ZN(2), ZN(39321), ZN(39322), ZN(39323), ZN(32768), ZN(65535), ZN(65536), ZN(65534), ZN(60000)})
AsinOut == PM({ZN(65537), ZN(65538), ZN(100000), P(20), P(32), P(47), Maxv, NaNv})
Jobs_C12 ==
   <<Sweep("asin", "fx", ZN(-65536 - 80 + (Seed % 3)), ZN(65536 + 80), NR(3, 1)), Sweep("acos", "fx", ZN(-65536 - 80 + ((Seed + 1) % 3)), ZN(65536 + 80), NR(3, 1))>>
   \o S2Q({Sweep(op, "fx", m -- ZN(40), m ++ ZN(40), 1) : op \in {"asin", "acos"}, m \in PM({ZN(39322), ZN(65536), Z0})})
   \o S2Q({Call(op, <<"fx">>, <<x>>) : op \in {"asin", "acos"}, x \in AsinX \cup AsinOut})
   \o S2Q({Pair("asin_pair", x, ZNeg(x)) : x \in AsinX})
   \o [i \in 1..(IF Thorough THEN 131072 ELSE 3000) |->
          LET x == ZN(IF Thorough THEN i - 65537 ELSE (i * 43) - 64500) IN Pair("asin_pair", x, x ++ Z1)]
   \o S2Q({Pair("asin_pair", x, ZNeg(x)) : x \in {ZN(i * 131) : i \in 0..500}})

(* ---- C14 ------------------------------------------------------------------------------------------ *)
HyLm == PM({Z0, Z1, ZN(2), ZN(3), ZN(255), ZN(65535), ZN(65536), ZN(65537), ZN(3) ** OneFx, ZN(4) ** OneFx, P(20), P(29), P(30) -- Z1, P(30), P(30) ++ Z1, P(31),
            P(32), P(38), P(39), P(40), P(46), DomLim -- Z1, P(46) ++ P(45), P(14), P(15), P(17), P(23), P(24) -- Z1})
Jobs_C14 ==
   S2Q({Call("hypot_sym", <<"fx", "fx">>, <<a, b>>) : a \in HyLm, b \in HyLm})
   \o FlatSeq([i \in 1..(IF Thorough THEN 256 ELSE 25) |-> S2Q({Call("hypot", <<"fx", "fx">>, <<ZN(i - 1), ZN(j)>>) : j \in 0..(IF Thorough THEN 255 ELSE 24)})])
   \o <<[RandM("hypot_sym", <<"fx", "fx">>, NR(3000, 100000), Seed + 6, "related") EXCEPT !.maxbits = 47], RandB("hypot", <<"fx", "fx">>, NR(10000, 400000), Seed + 1, 47), RandB("hypot", <<"fx", "fx">>, NR(8000, 200000), Seed + 2, 31),
        RandB("hypot", <<"fx", "fx">>, NR(5000, 200000), Seed + 3, 17), RandB("hypot_sym", <<"fx", "fx">>, NR(4000, 100000), Seed + 4, 47),
        RandB("hypot_sym", <<"fx", "fx">>, NR(2000, 100000), Seed + 5, 30)>>

(* ---- C19 ------------------------------------------------------------------------------------------ *)
I32Lm == {ZN(-2147483647) -- Z1, ZN(-2147483647), ZN(2147483647), ZN(2147483646), ZN(-360), ZN(360), ZN(361), ZN(-361), ZN(720), ZN(-720), ZN(1000000), ZN(-1000000),
          ZN(-1), ZN(-359), ZN(-2147483520), ZN(2147483520)}
Jobs_C19 ==
   <<[k |-> "static_init"], Sweep("tab_sin", "u16", Z0, ZN(360), 1), Sweep("tab_cos", "u16", Z0, ZN(360), 1), Sweep("tab_tan", "u8", Z0, ZN(255), 1),
     [Sweep("tab_sqrt", "u8", Z0, ZN(255), 1) EXCEPT !.ot = "u16"],
     Sweep("sin_angle_aprox", "i32", ZN(NR(-1500, -100000)), ZN(NR(1500, 100000)), 1), Sweep("cos_angle_aprox", "i32", ZN(NR(-1500, -100000)), ZN(NR(1500, 100000)), 1),
     Sweep("sin_angle_aprox", "i32", ZN(-2147483647) -- Z1, ZN(2147483647), NR(2147483, 65521)),
     Sweep("cos_angle_aprox", "i32", ZN(-2147483647) -- Z1, ZN(2147483647), NR(2147483, 65521)),
     Rand("sin_angle_aprox", <<"i32">>, NR(3000, 200000), Seed + 1), Rand("cos_angle_aprox", <<"i32">>, NR(3000, 200000), Seed + 2),
     Sweep("sqrt_aprox", "fx", ZN(-20), P(16), NR(5, 1)), Sweep("sqrt_aprox", "fx", P(16), P(22), NR(997, 13)),
     RandB("sqrt_aprox", <<"fx">>, NR(5000, 200000), Seed + 3, 37),
     Sweep("atan_index_aprox", "fx", ZNeg(P(19)), P(19), NR(61, 1)), RandB("atan_index_aprox", <<"fx">>, NR(5000, 200000), Seed + 4, 47),
     RandB("atan_index_aprox", <<"fx">>, NR(3000, 100000), Seed + 5, 24)>>
   \o S2Q({Call(op, <<"i32">>, <<d>>) : op \in {"sin_angle_aprox", "cos_angle_aprox"}, d \in I32Lm})
   (* thorough: every one of the 2^32 angles, aggregated by the driver into one event per distinct (d mod 360, result) *)
   \o (IF Thorough THEN <<[k |-> "class32", op |-> "sin_angle_aprox"], [k |-> "class32", op |-> "cos_angle_aprox"]>> ELSE <<>>)
   \o Octaves("sqrt_aprox", 16, 36, NR(48, 1024)) \o S2Q({Call("sqrt_aprox", <<"fx">>, <<x>>) : x \in {ZN(-1), ZNeg(P(40)), Lowestv, P(37) -- Z1, Z0, Z1}})
   \o Octaves("atan_index_aprox", 19, 46, NR(32, 512)) \o OctavesNeg("atan_index_aprox", 19, 46, NR(32, 512))

(* ---- C20 ------------------------------------------------------------------------------------------ *)
DegTagsG == IntTagsG
Jobs_C20 ==
   FlatSeq([i \in 1..NT |-> LET tg == DegTagsG[i]  t == TypeG(tg) IN
      (IF t.bits <= 16 THEN <<Sweep("a2r", tg, TMin(t), TMax(t), IF t.bits = 8 \/ Thorough THEN 1 ELSE 13)>>
       ELSE <<Sweep("a2r", tg, ZMax(TMin(t), ZN(-1200)), ZN(1200), 1)>> \o S2Q({Call("a2r", <<tg>>, <<n>>) : n \in IntLm(tg)}))
      \o <<Sweep("a2r", tg, ZMax(TMin(t), ZN(-3)), ZMin(TMax(t), ZN(363)), 1)>>
      \o FlatSeq([f \in 1..3 |-> <<Sweep(<<"sin_angle", "cos_angle", "tan_angle">>[f], tg, ZMax(TMin(t), ZN(-360)), ZMin(TMax(t), ZN(360)), 1)>>])])
   \o FlatSeq([f \in 1..3 |-> <<SweepZ(<<"sin_angle", "cos_angle", "tan_angle">>[f], "fx", ZN(-360) ** OneFx, ZN(360) ** OneFx, OneFx),
                                 Sweep(<<"sin_angle_all", "cos_angle_all", "tan_angle_all">>[f], "i32", ZN(-360), ZN(360), 1)>>])

(* ---- C05 ------------------------------------------------------------------------------------------ *)
B32(sg, E, M) == (IF sg = 1 THEN P(31) ELSE Z0) ++ ZShl(ZN(E), 23) ++ M
B64(sg, E, M) == (IF sg = 1 THEN P(63) ELSE Z0) ++ ZShl(ZN(E), 52) ++ M
M32 == {Z0, Z1, P(23) -- Z1, P(22), P(22) -- Z1, P(22) ++ Z1, P(7), P(7) ++ Z1, P(15) ++ P(3)}
M64 == {Z0, Z1, P(52) -- Z1, P(51), P(51) -- Z1, P(51) ++ Z1, P(36), P(36) ++ Z1, P(35), P(20) ++ P(3), P(5), P(4) ++ Z1}
E64 == {0, 1, 2, 2046, 2047} \cup (960..1072)
CallF(op, tag, bits, via) == [Call(op, <<tag>>, <<Z0>>) EXCEPT !.a = <<ZToLimbs(bits, 4)>>, !.via = via]
(* exact dyadic values written as floats by the spec itself *)
FV(fmt, s, n, e) == FEncode(fmt, FRound(fmt, s, n, e))
TieN == {ZN(1), ZN(3), ZN(5), ZN(255), ZN(65535), ZN(65537), P(23) ++ Z1, P(24) -- Z1, P(31) -- Z1, P(40) ++ Z1, P(46) ++ Z1, P(47) -- Z1}
TieBeside(k) == {(((m ** ZN(2)) ++ Z1) ** P(k - 24)) ++ d :
                   m \in {P(23), P(23) ++ Z1, P(23) ++ ZN(2), P(23) ++ ZN(5), P(24) -- Z1, P(23) ++ P(22)}, d \in {Z1, ZN(-1), P(k - 55), ZNeg(P(k - 55))}}
Jobs_C05 ==
   S2Q({CallF("fl2f", "f32", B32(sg, E, M), via) : sg \in {0, 1}, E \in 0..255, M \in M32, via \in {"", "ctor"}})
   \o S2Q({CallF("fl2f", "f64", B64(sg, E, M), via) : sg \in {0, 1}, E \in E64, M \in M64, via \in {""}})
   \o S2Q({CallF("fl2f", "f64", B64(sg, E, M), "ctor") : sg \in {0, 1}, E \in 1000..1060, M \in {Z0, P(51), P(52) -- Z1}})
   (* ties: (n + 1/2) / 2^16 = (2n+1) * 2^-17, and their neighbours, both formats *)
   \o S2Q({CallF("fl2f", "f64", FV(F64, s, (n ** ZN(2)) ++ Z1, -17) ++ d, "") : s \in {1, -1}, n \in TieN, d \in {Z0, Z1, ZN(-1)}})
   \o S2Q({CallF("fl2f", "f32", FV(F32, s, (n ** ZN(2)) ++ Z1, -17) ++ d, "") : s \in {1, -1}, n \in TieN, d \in {Z0, Z1, ZN(-1)}})
   \o S2Q({CallF("fl2f", tg, FV(IF tg = "f32" THEN F32 ELSE F64, s, MaxIntegral ++ ZN(k), 0) ++ d, "") :
            tg \in {"f32", "f64"}, s \in {1, -1}, k \in (-2)..2, d \in {Z0, Z1, ZN(-1)}})
   \o <<Rand("fl2f", <<"f32">>, NR(15000, 600000), Seed + 1), Rand("fl2f", <<"f64">>, NR(15000, 600000), Seed + 2),
        [Rand("fl2f", <<"f32">>, NR(2000, 100000), Seed + 3) EXCEPT !.via = "ctor"], [Rand("fl2f", <<"f64">>, NR(2000, 100000), Seed + 4) EXCEPT !.via = "ctor"],
        Sweep("f2d", "fx", ZNeg(P(16)), P(16), NR(7, 1)), Sweep("f2f", "fx", ZNeg(P(16)), P(16), NR(7, 1)),
        Sweep("f2f", "fx", P(24) -- ZN(300), P(24) ++ ZN(3000), 1), Sweep("f2f", "fx", P(25) -- ZN(300), P(25) ++ ZN(3000), 1),
        Sweep("f2f", "fx", ZNeg(P(26)) -- ZN(3000), ZNeg(P(26)) ++ ZN(300), 1),
        Sweep("f2d", "fx", P(53) -- ZN(500), P(53) ++ ZN(1500), 1), Sweep("f2d", "fx", ZNeg(P(53)) -- ZN(500), ZNeg(P(53)) ++ ZN(500), 1),
        Rand("f2d", <<"fx">>, NR(8000, 300000), Seed + 5), Rand("f2f", <<"fx">>, NR(8000, 300000), Seed + 6),
        [Rand("f2d", <<"fx">>, NR(2000, 50000), Seed + 7) EXCEPT !.via = "cast"], [Rand("f2f", <<"fx">>, NR(2000, 50000), Seed + 8) EXCEPT !.via = "cast"],
        RandB("rt_d", <<"fx">>, NR(10000, 400000), Seed + 9, 47), Sweep("rt_d", "fx", ZNeg(P(17)), P(17), NR(11, 1)),
        Sweep("rt_d", "fx", DomLim -- ZN(2000), DomLim -- Z1, 1), Sweep("rt_d", "fx", ZNeg(DomLim) ++ Z1, ZNeg(DomLim) ++ ZN(2000), 1)>>
   \o S2Q({Call(op, <<"fx">>, <<x>>) : op \in {"f2d", "f2f", "rt_d"}, x \in LmFinite})
   (* fixed -> float of raws just beside a binary32 tie by LESS than half a binary64 ulp (a conversion that goes through double rounds twice) *)
   \o S2Q({CallVia("f2f", <<"fx">>, <<x>>, via, "fx") : via \in {"", "cast"}, x \in PM(UNION {TieBeside(k) : k \in 54..62})})

(* float carriers of a degree count (C20) *)
Jobs_C20F == S2Q({CallF(op, "f32", FV(F32, s, ZN(d), 0), "") : op \in {"sin_angle", "cos_angle", "tan_angle"}, s \in {1, -1}, d \in {0, 1, 30, 45, 89, 90, 91, 179, 180, 270, 359, 360}})

(* ---- C16 ------------------------------------------------------------------------------------------ *)
FxC16 == IF Thorough THEN PM({Z0, Z1, ZN(65535), ZN(65536), ZN(98304), ZN(3) ** OneFx, P(31), P(32), P(46), P(47) -- Z1, P(47), P(48), P(55), P(56), P(62), Maxv,
                              Maxv -- ZN(65536), MaxIntegral ** OneFx})
         ELSE PM({Z0, Z1, ZN(98304), P(32), P(47) -- Z1, P(48), P(56), Maxv})
F32Vals == {FV(F32, s, n, e) : s \in {1, -1}, n \in {Z0, Z1, ZN(3), ZN(5), P(23) ++ Z1, P(24) -- Z1}, e \in {-17, -16, -1, 0, 7, 8, 20}}
           \cup {B32(0, 255, Z0), B32(1, 255, Z0), B32(0, 255, Z1), B32(0, 158, Z0), B32(0, 157, P(23) -- Z1), B32(1, 158, Z0)}
F64Vals == {FV(F64, s, n, e) : s \in {1, -1}, n \in {Z0, Z1, ZN(3), ZN(5), P(52) ++ Z1, P(53) -- Z1}, e \in {-40, -17, -16, -1, 0, 7, 30}}
           \cup {B64(0, 2047, Z0), B64(1, 2047, Z0), B64(0, 2047, Z1), B64(0, 1, Z0), B64(0, 2046, P(52) -- Z1)}
Ops4 == {"add", "sub", "mul", "div"}
CallM(op, t, a, asg) == [Call(op, t, <<Z0, Z0>>) EXCEPT !.a = a, !.asg = asg]
Jobs_C16 ==
   FlatSeq([i \in 1..NT |-> LET tg == IntTagsG[i] IN
      S2Q({CallM(op, <<"fx", tg>>, <<Enc(x), Enc(n)>>, asg) : op \in Ops4, x \in FxC16, n \in IntLm(tg), asg \in {0, 1}})
      \o S2Q({CallM(op, <<tg, "fx">>, <<Enc(n), Enc(x)>>, 0) : op \in Ops4, x \in FxC16, n \in IntLm(tg)})
      \o FlatSeq([o \in 1..4 |-> <<Rand(<<"add", "sub", "mul", "div">>[o], <<"fx", tg>>, NR(300, 6000), Seed + 10 * i + o),
                                   Rand(<<"add", "sub", "mul", "div">>[o], <<tg, "fx">>, NR(300, 6000), Seed + 10 * i + o + 4),
                                   [Rand(<<"add", "sub", "mul", "div">>[o], <<"fx", tg>>, NR(150, 3000), Seed + 10 * i + o + 8) EXCEPT !.asg = 1]>>])])
   \o S2Q({CallM(op, <<"fx", "f32">>, <<Enc(x), ZToLimbs(f, 4)>>, asg) : op \in Ops4, x \in FxC16, f \in F32Vals, asg \in {0, 1}})
   \o S2Q({CallM(op, <<"f32", "fx">>, <<ZToLimbs(f, 4), Enc(x)>>, 0) : op \in Ops4, x \in FxC16, f \in F32Vals})
   \o S2Q({CallM(op, <<"fx", "f64">>, <<Enc(x), ZToLimbs(f, 4)>>, 0) : op \in Ops4, x \in FxC16, f \in F64Vals})
   \o S2Q({CallM(op, <<"f64", "fx">>, <<ZToLimbs(f, 4), Enc(x)>>, 0) : op \in Ops4, x \in FxC16, f \in F64Vals})
   \o FlatSeq([o \in 1..4 |-> LET op == <<"add", "sub", "mul", "div">>[o] IN
         <<Rand(op, <<"fx", "f32">>, NR(2000, 40000), Seed + 200 + o), Rand(op, <<"f32", "fx">>, NR(2000, 40000), Seed + 210 + o),
           Rand(op, <<"fx", "f64">>, NR(3000, 50000), Seed + 220 + o), Rand(op, <<"f64", "fx">>, NR(3000, 50000), Seed + 230 + o),
           [Rand(op, <<"fx", "f32">>, NR(1000, 30000), Seed + 240 + o) EXCEPT !.asg = 1]>>])

(* ---- C17: landmark instances of the laws (FxLaws) as programs --------------------------------------- *)
LoadJob(r, v) == [k |-> "ins", op |-> "load", t |-> <<"fx">>, a |-> <<Enc(v)>>, d |-> r, s |-> <<0>>, asg |-> 0, via |-> "", ot |-> "fx"]
InsJob(i) == [k |-> "ins", op |-> i.op, t |-> i.t, a |-> [q \in DOMAIN i.s |-> Enc(i.imm[q])], d |-> i.d, s |-> i.s, asg |-> 0, via |-> "", ot |-> "fx"]
ProgJobsT(name, vals, n, tg) ==
   LET T == LawTailOf(name, 1, 2, 3, 4, n, tg) IN
   <<[k |-> "begin", prog |-> name, id |-> 0, regs |-> <<1, 2, 3>>, f |-> 4, n |-> Enc(n), tag |-> tg]>>
   \o [i \in 1..3 |-> LoadJob(i, vals[i])] \o [i \in 1..Len(T) |-> InsJob(T[i])] \o <<[k |-> "end"]>>
ProgJobs(name, vals, n) == ProgJobsT(name, vals, n, "i64")
LawLm1 == {x \in LmFinite : TRUE}
ISq == ZISqrt(P(63))
LawLm2 == PM({Z0, Z1, OneFx, ZN(98304), P(31), P(46), DomLim -- Z1, DomLim, P(62), Maxv, Maxv -- OneFx, Maxv -- Z1, ISq})
LawLm3 == PM({Z0, Z1, OneFx, P(46), P(62), Maxv, Maxv -- OneFx})
LawNs == {ZN(k) : k \in {1, 2, 3, 7, 10, 64, -1, -2, -3, -64, 65536, -65536, 2147483647, -2147483647}} \cup {P(40), ZNeg(P(40)), P(62)}
SumNs == {ZN(k) : k \in (1..12) \cup {33, 64}}
LawLmT == {Z0, Z1, ZN(-1), OneFx, ZN(-98304), P(20), ZNeg(P(31)), P(46)}
Cat(S) == FlatSeq(S2Q(S))
Jobs_C17 ==
   Cat({ProgJobs(nm, <<a, Z0, Z0>>, Z0) : nm \in {"sub_self", "mul_one", "mul_zero", "div_one", "div_self"}, a \in LawLm1})
   \o Cat({ProgJobs(nm, <<a, b, Z0>>, Z0) : nm \in {"add_comm", "mul_comm", "sub_neg", "add_sub_cancel"}, a \in LawLm2, b \in LawLm2})
   \o Cat(UNION {{ProgJobs(nm, <<a, b, Z0>>, Z0) : nm \in {"add_comm", "sub_neg", "add_sub_cancel"}, b \in SolveAdd(a) \cup SolveSub(a)} : a \in LawLm3})
   \o Cat({ProgJobs(nm, <<a, b, c>>, Z0) : nm \in {"add_assoc", "add_mono"}, a \in LawLm3, b \in LawLm3, c \in LawLm3})
   \o Cat({ProgJobs("mul_div_n", <<a, Z0, Z0>>, n) : a \in LawLm2, n \in LawNs})
   \o Cat({ProgJobs("mul_n_sum", <<a, Z0, Z0>>, n) : a \in LawLm2 \cup {Maxv // k : k \in SumNs}, n \in SumNs})
   (* the integer operand in every integral type, over the whole range of the type *)
   \o FlatSeq([i \in 1..NT |-> Cat({ProgJobsT("mul_div_n", <<a, Z0, Z0>>, n, IntTagsG[i]) : a \in LawLmT, n \in IntLm(IntTagsG[i])})])
   \o FlatSeq([i \in 1..NT |-> Cat({ProgJobsT("mul_n_sum", <<a, Z0, Z0>>, n, IntTagsG[i]) : a \in {Z1, ZN(-98304), P(40)}, n \in {ZN(3), ZN(11)}})])

(* ---- C07: every entry point, finite and NaN operands, to be run in the sanitizer configurations ------------------ *)
Lm07 == PM({ZISqrt(P(63)) ++ Z1, P(32) -- Z1, ZN(50000) ** OneFx, Z0, Z1, ZN(65535), ZN(65536), ZN(98304), HalfPhi, Phi, ZN(39322), P(31), P(32), P(37), P(46) -- Z1, P(46), DomLim -- Z1, DomLim, P(48) -- Z1, P(48), P(55),
            P(62), P(62) ++ P(61), Maxv -- ZN(65536), Maxv -- ZN(65535), Maxv -- Z1, Maxv, NaNv})
Un07 == {"neg", "abs", "isnan", "floor", "ceil", "sqrt", "sqrt_abacus", "sqrt_std", "sin", "cos", "tan", "atan", "asin", "acos", "atan_index_aprox", "sqrt_aprox",
         "atan_aprox", "sin_angle", "cos_angle", "tan_angle", "f2d", "f2f", "rt_d"}
Bin07 == {"add", "sub", "mul", "div", "and", "cmp", "atan2", "hypot", "hypot_aprox"}
Lm07F == {x \in Lm07 : Finite(x)}
Cat07(SS) == S2Q(UNION SS)
Fx07 == {x \in Lm07 : ZAbs(x) \in {Z0, Z1, ZN(98304), P(32), P(48), P(62), Maxv, NaNv}}
Jobs_C07 ==
   S2Q({Call(op, <<"fx">>, <<x>>) : op \in Un07, x \in Lm07})
   \o S2Q({CallVia("f2i", <<"fx">>, <<x>>, "f2i", IntTagsG[i]) : x \in Lm07, i \in 1..NT})
   \o S2Q({Call(op, <<"fx", "fx">>, <<x, y>>) : op \in Bin07, x \in Lm07, y \in Lm07})
   \o S2Q({CallAsg(op, <<"fx", "fx">>, <<x, y>>) : op \in Ops4, x \in Fx07, y \in Fx07})
   (* second operands solved so that the exact result sits on the contract / word boundaries *)
   \o Cat07({{Call("mul", <<"fx", "fx">>, <<x, y>>) : y \in SolveMul(x)} : x \in Lm07F})
   \o Cat07({{Call("add", <<"fx", "fx">>, <<x, y>>) : y \in SolveAdd(x)} : x \in Lm07F})
   \o Cat07({{Call("sub", <<"fx", "fx">>, <<x, y>>) : y \in SolveSub(x)} : x \in Lm07F})
   \o <<RandM("mul", <<"fx", "fx">>, NR(3000, 100000), Seed + 69, "prodedge"), RandB("mul", <<"fx", "fx">>, NR(1500, 50000), Seed + 70, 32), RandB("mul", <<"fx", "fx">>, NR(1500, 50000), Seed + 71, 33),
        RandB("mul", <<"fx", "fx">>, NR(1000, 50000), Seed + 72, 40), RandB("div", <<"fx", "fx">>, NR(1000, 50000), Seed + 73, 48),
        RandB("hypot", <<"fx", "fx">>, NR(1000, 50000), Seed + 74, 31), RandB("atan2", <<"fx", "fx">>, NR(1000, 50000), Seed + 75, 33)>>
   \o S2Q({CallR(op, x, r) : op \in {"shl", "shr"}, x \in Fx07 \cup {Maxv -- Z1, ZN(-3)}, r \in ShiftCounts})
   \o FlatSeq([i \in 1..NT |-> LET tg == IntTagsG[i] IN
         S2Q({CallM(op, <<"fx", tg>>, <<Enc(x), Enc(n)>>, asg) : op \in Ops4, x \in Fx07, n \in IntLm(tg), asg \in {0, 1}})
         \o S2Q({CallM(op, <<tg, "fx">>, <<Enc(n), Enc(x)>>, 0) : op \in Ops4, x \in Fx07, n \in IntLm(tg)})
         \o S2Q({CallVia("i2f", <<tg>>, <<n>>, via, "fx") : n \in IntLm(tg), via \in {"ctor", "i2f"}})
         \o S2Q({Call(op, <<tg>>, <<n>>) : op \in {"a2r", "sin_angle", "cos_angle", "tan_angle"}, n \in IntLm(tg)})])
   \o S2Q({CallM(op, <<"fx", "f32">>, <<Enc(x), ZToLimbs(f, 4)>>, 0) : op \in Ops4, x \in Fx07, f \in F32Vals})
   \o S2Q({CallM(op, <<"f64", "fx">>, <<ZToLimbs(f, 4), Enc(x)>>, 0) : op \in Ops4, x \in Fx07, f \in F64Vals})
   \o S2Q({CallF("fl2f", "f32", B32(sg, E, M), "") : sg \in {0, 1}, E \in 0..255, M \in {Z0, P(23) -- Z1, P(22)}})
   \o S2Q({CallF("fl2f", "f64", B64(sg, E, M), "") : sg \in {0, 1}, E \in E64, M \in {Z0, P(52) -- Z1, P(51)}})
   \o S2Q({CallF(op, "f32", f, "") : op \in {"sin_angle", "cos_angle", "tan_angle"}, f \in F32Vals})
   \o <<[k |-> "static_init"], Sweep("tab_sin", "u16", Z0, ZN(360), 1), Sweep("tab_cos", "u16", Z0, ZN(360), 1), Sweep("tab_tan", "u8", Z0, ZN(255), 1),
        [Sweep("tab_sqrt", "u8", Z0, ZN(255), 1) EXCEPT !.ot = "u16"],
        Sweep("sin_angle_aprox", "i32", ZN(-800), ZN(800), 1), Sweep("cos_angle_aprox", "i32", ZN(-800), ZN(800), 1),
        Sweep("sin_angle_aprox", "i32", ZN(-2147483647) -- Z1, ZN(2147483647), NR(8388593, 65521)),
        Sweep("cos_angle_aprox", "i32", ZN(-2147483647) -- Z1, ZN(2147483647), NR(8388593, 65521))>>
   \o S2Q({Call(op, <<"i32">>, <<d>>) : op \in {"sin_angle_aprox", "cos_angle_aprox"}, d \in I32Lm})
   \o FlatSeq([u \in 1..Cardinality(Un07) |-> <<Rand(S2Q(Un07)[u], <<"fx">>, NR(400, 20000), Seed + u)>>])
   \o FlatSeq([u \in 1..Cardinality(Bin07) |-> <<Rand(S2Q(Bin07)[u], <<"fx", "fx">>, NR(800, 40000), Seed + 50 + u)>>])
   \o <<RandR("shl", <<"fx">>, NR(1000, 50000), Seed + 80), RandR("shr", <<"fx">>, NR(1000, 50000), Seed + 81),
        Rand("fl2f", <<"f32">>, NR(2000, 100000), Seed + 82), Rand("fl2f", <<"f64">>, NR(2000, 100000), Seed + 83)>>
   \o FlatSeq([o \in 1..4 |-> LET op == <<"add", "sub", "mul", "div">>[o] IN
         <<Rand(op, <<"fx", "u64">>, NR(300, 10000), Seed + 90 + o), Rand(op, <<"i64", "fx">>, NR(300, 10000), Seed + 95 + o),
           Rand(op, <<"fx", "f32">>, NR(300, 10000), Seed + 100 + o), Rand(op, <<"f64", "fx">>, NR(300, 10000), Seed + 105 + o)>>])

(* ---- X01-X04: behaviour outside the listed properties (spec/FxContractXtra.tla) --------------------------------- *)
Jobs_X01 == S2Q({Call("stream", <<"fx">>, <<x>>) : x \in {y \in LmAll : IsNaN(y) \/ (ZAbs(y) \preceq P(53))}})
            \o <<Sweep("stream", "fx", ZN(-70000), ZN(70000), NR(7, 1)), RandB("stream", <<"fx">>, NR(4000, 100000), Seed + 1, 53)>>
Jobs_X02 == [i \in 1..12 |-> Call("limits", <<"i32">>, <<ZN(i - 1)>>)]
Jobs_X03 == S2Q({Call("lit_i", <<"u64">>, <<n>>) : n \in IntLm("u64")})
            \o S2Q({CallF("lit_f", "f64", B64(0, E, M), "") : E \in E64, M \in M64})
            \o S2Q({CallF("lit_f", "f64", FV(F64, 1, (n ** ZN(2)) ++ Z1, -17) ++ d, "") : n \in TieN, d \in {Z0, Z1, ZN(-1)}})
            \o <<Rand("lit_i", <<"u64">>, NR(2000, 50000), Seed + 2), Rand("lit_f", <<"f64">>, NR(4000, 100000), Seed + 3)>>
Jobs_X04 == S2Q({Call(op, <<"fx", "fx">>, <<x, y>>) : op \in Bin07, x \in {NaNv, NegNaN}, y \in Lm07})
            \o S2Q({Call(op, <<"fx", "fx">>, <<y, x>>) : op \in Bin07, x \in {NaNv, NegNaN}, y \in Lm07})
            \o S2Q({Call(op, <<"fx">>, <<x>>) : op \in Un07, x \in {NaNv, NegNaN}})

JobsForT(p) ==
   CASE p = "C09" -> Jobs_C09 [] p = "C10" -> Jobs_C10 [] p = "C11" -> Jobs_C11 [] p = "C12" -> Jobs_C12
     [] p = "C14" -> Jobs_C14 [] p = "C19" -> Jobs_C19 [] p = "C20" -> Jobs_C20 \o Jobs_C20F
     [] p = "C05" -> Jobs_C05 [] p = "C16" -> Jobs_C16 [] p = "C17" -> Jobs_C17 [] p = "C07" -> Jobs_C07
     [] p = "X01" -> Jobs_X01 [] p = "X02" -> Jobs_X02 [] p = "X03" -> Jobs_X03 [] p = "X04" -> Jobs_X04
     [] p = "X05" -> <<Call("floor", <<"fx">>, <<Lowestv>>), Call("floor", <<"fx">>, <<NegNaN>>)>>     \* the programs come from FxClosureGen (tlc -simulate)
=============================================================================
