------------------------------ MODULE FxProgGen ------------------------------
(***************************************************************************)
(* E2, behaviour generation for C17: the register machine as a program     *)
(* BUILDER.  A behaviour loads up to four landmark constants, appends a    *)
(* few random operations (+, -, unary -, *n, /n over existing registers,   *)
(* each into a fresh register) and finishes with the tail of a randomly    *)
(* chosen law of FxLaws applied to randomly chosen registers, so that the  *)
(* law's operands are RESULTS of earlier library calls.  Run with          *)
(*     tlc -simulate num=N -depth 12                                       *)
(* every finished behaviour is written as one JSON line (FX_PROGS).        *)
(***************************************************************************)
EXTENDS FxLaws, Json, CSV, IOUtils, TLC, Randomization

VARIABLES ins, nr, done, law
vars == <<ins, nr, done, law>>

Enc(x) == ZToLimbs(WrapU(x), 4)
Loads == {Z0, Z1, ZN(-1), OneFx, ZNeg(OneFx), ZN(98304), ZN(-32768), ZN(12345678), P(31), ZNeg(P(31)) ++ Z1, P(40), P(46), DomLim -- Z1, ZNeg(DomLim),
          P(55), P(61), P(62), ZNeg(P(62)), Maxv, Lowestv, Maxv -- OneFx, Maxv -- Z1, ZShr(Maxv, 1), ZShr(Maxv, 1) ++ Z1, ZISqrt(P(63)), ZN(3) ** OneFx}
Ns == {ZN(k) : k \in {1, 2, 3, 5, 7, 16, 64, 1000, -1, -2, -7, 65536, 2147483647}} \cup {P(33), ZNeg(P(33))}
SumN == {ZN(k) : k \in 1..9}
MaxPrefix == 8
ScalarTags == {"i8", "u8", "i16", "u16", "i32", "u32", "i64", "u64", "ll", "ull"}
NsAll == Ns \cup {ZN(k) : k \in {100, 127, 128, 200, 255, 256, 32767, 32768, 40000, 65535, -128, -32768}} \cup {P(31), P(31) ++ ZN(5), P(32) -- Z1, P(63) -- Z1, P(63), P(63) ++ ZN(7), P(64) -- Z1, ZNeg(P(31)), ZNeg(P(63))}
NsOf(tg) == {n \in NsAll : InT(TypeOf(tg), n) /\ n # Z0}

R(S) == RandomElement(S)          \* one random successor per action: the simulator does not enumerate the choices
Recent == (IF nr > 4 THEN nr - 4 ELSE 1)..nr
Init == ins = <<>> /\ nr = 0 /\ done = FALSE /\ law = [prog |-> ""]
Load == ~done /\ nr < 4 /\ Len(ins) = nr /\ ins' = Append(ins, Ld(nr + 1, R(Loads))) /\ nr' = nr + 1 /\ UNCHANGED <<done, law>>
Op2 == ~done /\ nr >= 2 /\ Len(ins) < MaxPrefix
       /\ ins' = Append(ins, RR2(R({"add", "sub", "mul", "div"}), nr + 1, R(1..nr), R(1..nr))) /\ nr' = nr + 1 /\ UNCHANGED <<done, law>>
OpN == ~done /\ nr >= 1 /\ Len(ins) < MaxPrefix
       /\ ins' = Append(ins, I(R({"mul", "div"}), FI("i64"), nr + 1, <<R(1..nr), 0>>, <<Z0, R(Ns)>>)) /\ nr' = nr + 1 /\ UNCHANGED <<done, law>>
OpNeg == ~done /\ nr >= 1 /\ Len(ins) < MaxPrefix
       /\ ins' = Append(ins, I("neg", <<"fx">>, nr + 1, <<R(1..nr)>>, <<Z0>>)) /\ nr' = nr + 1 /\ UNCHANGED <<done, law>>
InsJ(i) == [op |-> i.op, t |-> i.t, a |-> [q \in DOMAIN i.s |-> Enc(i.imm[q])], d |-> i.d, s |-> i.s]
Finish ==
   /\ ~done /\ nr >= 2
   (* RandomSubset(1, S) binds ONE random element for the whole scope (a LET would re-draw it at every use) *)
   /\ \E nm \in RandomSubset(1, LawNames) : \E tg \in RandomSubset(1, IF NeedsN(nm) THEN ScalarTags ELSE {"i64"}) :
      \E n \in RandomSubset(1, IF nm = "mul_n_sum" THEN SumN ELSE IF nm = "mul_div_n" THEN NsOf(tg) ELSE {Z0}) :
      \E ra \in RandomSubset(1, Recent) : \E rb \in RandomSubset(1, Recent) : \E rc \in RandomSubset(1, Recent) :
         /\ ins' = ins \o LawTailOf(nm, ra, rb, rc, nr + 1, n, tg)
         /\ law' = [prog |-> nm, regs |-> <<ra, rb, rc>>, f |-> nr + 1, n |-> Enc(n), tag |-> tg]
         /\ done' = TRUE /\ UNCHANGED nr
Next == Load \/ Op2 \/ OpN \/ OpNeg \/ Finish
Spec == Init /\ [][Next]_vars
(* evaluated on the states of the generated behaviour only: writes the finished program *)
Emit == done => CSVWrite("%1$s", <<ToJson([prog |-> law.prog, regs |-> law.regs, f |-> law.f, n |-> law.n, tag |-> law.tag,
                                          ins |-> [i \in 1..Len(ins) |-> InsJ(ins[i])]])>>, IOEnv.FX_PROGS)
=============================================================================
