------------------------------- MODULE FxReal -------------------------------
(***************************************************************************)
(* Sound rational enclosures of the real functions the properties mention. *)
(* A real number is represented by an integer scaled by 2^SC (SC = 96); an *)
(* enclosure is a pair <<lo, hi>> of such integers with lo <= true <= hi.  *)
(* Everything is computed with the integer substrate Z:                    *)
(*   pi     a 96-bit constant, CHECKED in an ASSUME against Machin's       *)
(*          formula evaluated with the operators of this module            *)
(*   sin    argument reduction by a multiple of pi, Maclaurin sum at the   *)
(*          midpoint (alternating, decreasing terms), widened by the       *)
(*          width of the reduced argument (sin is 1-Lipschitz) and by a    *)
(*          bound EPS on all truncation errors                             *)
(*   cos    sin(x + pi/2)                                                  *)
(* Inverse functions (atan, asin) and square roots are never evaluated:    *)
(* the contracts test them by inversion / squaring.  Contracts accept a    *)
(* result if SOME point of the enclosure satisfies the bound, so oracle    *)
(* rounding can only make a check more lenient (by < 2^-78), never         *)
(* stricter.                                                               *)
(***************************************************************************)
EXTENDS FxParams

SC  == 96
SCu == P(SC)                                   \* 1.0
EPS == P(16)                                   \* 2^-80: bound on accumulated truncation error of a series

MulS(a, b) == ZShr(a ** b, SC)                 \* floor(a*b / 2^SC)
IvAdd(x, y) == <<x[1] ++ y[1], x[2] ++ y[2]>>
IvNeg(x) == <<ZNeg(x[2]), ZNeg(x[1])>>
IvSub(x, y) == IvAdd(x, IvNeg(y))
IvWiden(x, e) == <<x[1] -- e, x[2] ++ e>>
IvAbsHi(x) == ZMax(ZAbs(x[1]), ZAbs(x[2]))    \* upper bound of |x|
IvAbsLo(x) == IF (x[1] \preceq Z0) /\ (Z0 \preceq x[2]) THEN Z0 ELSE ZMin(ZAbs(x[1]), ZAbs(x[2]))
Min4(a, b, c, d) == ZMin(ZMin(a, b), ZMin(c, d))
Max4(a, b, c, d) == ZMax(ZMax(a, b), ZMax(c, d))
(* product of two enclosures (scaled), outward rounded *)
IvMul(x, y) == <<Min4(MulS(x[1], y[1]), MulS(x[1], y[2]), MulS(x[2], y[1]), MulS(x[2], y[2])) -- Z1,
                 Max4(MulS(x[1], y[1]), MulS(x[1], y[2]), MulS(x[2], y[1]), MulS(x[2], y[2])) ++ Z1>>
(* enclosure times an exact integer n (unscaled) *)
IvScale(x, n) == IF Z0 \preceq n THEN <<x[1] ** n, x[2] ** n>> ELSE <<x[2] ** n, x[1] ** n>>
(* enclosure divided by a positive exact integer *)
IvDivN(x, n) == <<x[1] // n, (x[2] // n) ++ Z1>>
IvPoint(v) == <<v, v>>
IvMeets(x, y) == (x[1] \preceq y[2]) /\ (y[1] \preceq x[2])
(* distance from the point v to the enclosure x (0 inside) *)
IvDist(v, x) == IF v \prec x[1] THEN x[1] -- v ELSE IF x[2] \prec v THEN v -- x[2] ELSE Z0

(* the exact real value of a raw fixed_t: raw / 2^F *)
RealOfRaw(raw) == ZShl(raw, SC - F)

-----------------------------------------------------------------------------
(* pi *)
PiApprox == ZFromLimbs(<<35374, 4889, 2259, 34211, 27272, 9279, 3>>)      \* floor(pi * 2^96)
PiIv == <<PiApprox, PiApprox ++ Z1>>
HalfPiIv == <<PiApprox // ZN(2), (PiApprox // ZN(2)) ++ Z1>>

(* atan(1/q) = sum (-1)^i / ((2i+1) q^(2i+1)), truncated sums; used only to check PiApprox *)
RECURSIVE AtanInvSum(_, _, _, _, _)
AtanInvSum(q2, pw, i, n, acc) ==        \* pw = floor(2^SC / q^(2i+1))
   IF i > n THEN acc
   ELSE LET t == pw // ZN(2 * i + 1) IN
        AtanInvSum(q2, pw // q2, i + 1, n, IF i % 2 = 0 THEN acc ++ t ELSE acc -- t)
AtanInv(q, n) == AtanInvSum(ZN(q * q), SCu // ZN(q), 0, n, Z0)
MachinPi == (ZN(16) ** AtanInv(5, 24)) -- (ZN(4) ** AtanInv(239, 8))
ASSUME ZAbs(MachinPi -- PiApprox) \prec P(12)                          \* agree to 2^-84

-----------------------------------------------------------------------------
(* sine of an enclosure *)
RECURSIVE SinSeries(_, _, _, _, _)
SinSeries(term, r2, i, n, acc) ==
   IF i > n THEN acc
   ELSE LET t == ZNeg(MulS(term, r2) // ZN((2 * i) * (2 * i + 1))) IN
        SinSeries(t, r2, i + 1, n, acc ++ t)
(* Maclaurin sum of sin at the point rm, |rm| <= 2.5: 24 terms leave a remainder below 2^-100 *)
SinPoint(rm) == SinSeries(rm, MulS(rm, rm), 1, 24, rm)

(* nearest integer to x / pi (any integer would be sound; this one keeps the reduced argument small) *)
NearestPiMultiple(xm) == ((xm ** ZN(2)) ++ PiApprox) // (PiApprox ** ZN(2))

(* the reduced argument x - k*pi as an enclosure, and k *)
Reduce(x) ==
   LET xm == (x[1] ++ x[2]) // ZN(2)
       k  == NearestPiMultiple(xm)
       kp == IvScale(PiIv, k)
   IN [k |-> k, r |-> IvSub(x, kp)]

SinIv(x) ==
   LET red == Reduce(x)
       r   == red.r
       rm  == (r[1] ++ r[2]) // ZN(2)
       w   == (r[2] -- r[1]) ++ EPS
       s   == SinPoint(rm)
       e   == <<ZMax(s -- w, ZNeg(SCu)), ZMin(s ++ w, SCu)>>
   IN IF (red.k %% ZN(2)) = Z0 THEN e ELSE IvNeg(e)
CosIv(x) == SinIv(IvAdd(x, HalfPiIv))

(* enclosure of the distance of x to the nearest multiple of pi (the r of property C09) *)
DistToPiMultiple(x) == LET r == Reduce(x).r IN <<IvAbsLo(r), IvAbsHi(r)>>

(* upper bound of r^9 / 9! for an upper bound r >= 0 (scaled) *)
RECURSIVE PowUp(_, _)
PowUp(r, n) == IF n = 0 THEN SCu ELSE MulS(PowUp(r, n - 1), r) ++ Z1
R9Over9Fact(r) == (PowUp(r, 9) // ZN(362880)) ++ Z1

(* degrees: d * pi / 180 as an enclosure, d an exact integer (Z) *)
DegIv(d) == IvDivN(IvWiden(IvScale(PiIv, d), Z0), ZN(180))
(* i * pi / 256 *)
Idx256Iv(i) == IvDivN(IvScale(PiIv, i), ZN(256))

Ulp(n, d) == (ZShl(ZN(n), SC - F)) // ZN(d)        \* n/d units in the last place (2^-F) as a scaled real
=============================================================================
