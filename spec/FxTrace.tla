------------------------------- MODULE FxTrace -------------------------------
(***************************************************************************)
(* E3: trace validation.  The driver (harness/fxdrv.cc) records one ndjson *)
(* line per call of the real library; this specification consumes the      *)
(* lines one per step.  A "call" line is decoded into an event; HighSpec   *)
(* (the Ok_Cxx predicates) decides it; a rejected event is either covered  *)
(* by an enabled, named deviation (a known finding) or it is a violation.  *)
(* Validation is total: a rejection is recorded and the trace goes on.     *)
(* LowSpec's prediction is compared with every result (fidelity gauge).    *)
(* Program lines (begin / call with registers / end) run on the register   *)
(* file env: logged operands must equal the registers they were read from  *)
(* (data-flow binding), and the law named by the program is judged at end. *)
(***************************************************************************)
EXTENDS FxJudgeT, Json, IOUtils, TLC

TraceFile == IOEnv.FX_TRACE
OutFile   == IOEnv.FX_OUT
TraceLog  == ndJsonDeserialize(TraceFile)
NL        == Len(TraceLog)

VARIABLES l,      \* next line of the trace
          env,    \* register file of the current program
          hist,   \* instructions of the current program so far: <<op, d, s>>
          prog,   \* name of the current program or ""
          prev,   \* previous call event (relational clauses along sweeps)
          st      \* verdict statistics
vars == <<l, env, hist, prog, prev, st>>

NReg == 24
MaxListed == 40
NoPrev == [op |-> "none"]
NoProg == [prog |-> ""]

St0 == [calls |-> 0, relevant |-> 0, ok |-> 0, nviol |-> 0, viol |-> <<>>, nknown |-> 0,
        known |-> [d \in EnabledDeviations |-> 0], knownAt |-> [d \in EnabledDeviations |-> 0],
        same |-> 0, differs |-> 0, nolow |-> 0, differsAt |-> <<>>, malformed |-> <<>>, progs |-> 0, laws |-> 0, cfg |-> "", ab |-> 0]

Init == l = 1 /\ env = [i \in 1..NReg |-> Z0] /\ hist = <<>> /\ prog = NoProg /\ prev = NoPrev /\ st = St0

Line == TraceLog[l]
IsKind(k) == l <= NL /\ Line.k = k

Listed(s, x) == IF Len(s) < MaxListed THEN Append(s, x) ELSE s

(* verdict bookkeeping for one judged thing (an event or a law) at line l *)
Account(s, v, rel, fid) ==
   LET s1 == [s EXCEPT !.relevant = @ + (IF rel THEN 1 ELSE 0)]
       s2 == CASE v = "ok" -> [s1 EXCEPT !.ok = @ + 1]
               [] v = "violation" -> [s1 EXCEPT !.nviol = @ + 1, !.viol = Listed(@, l)]
               [] OTHER -> [s1 EXCEPT !.nknown = @ + 1, !.known[v] = @ + 1,
                                      !.knownAt[v] = IF @ = 0 THEN l ELSE @]
   IN CASE fid = "same" -> [s2 EXCEPT !.same = @ + 1]
        [] fid = "differs" -> [s2 EXCEPT !.differs = @ + 1, !.differsAt = Listed(@, l)]
        [] OTHER -> [s2 EXCEPT !.nolow = @ + 1]

TraceCfg ==
   /\ IsKind("cfg")
   /\ l' = l + 1 /\ st' = [st EXCEPT !.cfg = Line.id, !.ab = IF "sqrt_runtime_abacus" \in DOMAIN Line THEN Line.sqrt_runtime_abacus ELSE 0] /\ UNCHANGED <<env, hist, prog, prev>>

(* one call of the real library *)
TraceCall ==
   /\ IsKind("call")
   /\ LET j == Line
          e == [EventT(j) EXCEPT !.ab = st.ab]
          inprog == "d" \in DOMAIN j
          bound == ~inprog \/ \A i \in DOMAIN j.s : j.s[i] = 0 \/ env[j.s[i]] = e.a[i]     \* data-flow binding
          v == JudgeAll(Prop, prev, e)
          fid == FidelityAll(st.ab, e)
      IN /\ l' = l + 1
         /\ prev' = e
         /\ IF ~bound
            THEN st' = [st EXCEPT !.malformed = Listed(@, l)] /\ UNCHANGED <<env, hist>>
            ELSE /\ st' = [Account(st, v, RelAll(Prop, prev, e), fid) EXCEPT !.calls = @ + 1]
                 /\ IF inprog
                    THEN /\ env' = IF j.d > 0 THEN [env EXCEPT ![j.d] = e.o] ELSE env
                         /\ hist' = Append(hist, [op |-> e.op, t |-> e.t, d |-> j.d, s |-> j.s, a |-> e.a, o |-> e.o])
                    ELSE UNCHANGED <<env, hist>>
   /\ UNCHANGED prog

(* one merged cross-configuration event (C08): the same call in every configuration and under constant evaluation *)
TraceX ==
   /\ IsKind("xcfg")
   /\ l' = l + 1 /\ UNCHANGED <<env, hist, prog, prev>>
   /\ st' = [Account(st, JudgeX(Prop, XEvent(Line)), TRUE, "nolow") EXCEPT !.calls = @ + 1]

TraceBegin ==
   /\ IsKind("begin")
   /\ l' = l + 1 /\ prog' = Line /\ env' = [i \in 1..NReg |-> Z0] /\ hist' = <<>>
   /\ st' = [st EXCEPT !.progs = @ + 1] /\ UNCHANGED prev

(* end of a program: the law it was generated for is judged on the final register file *)
TraceEnd ==
   /\ IsKind("end")
   /\ l' = l + 1 /\ prog' = NoProg /\ UNCHANGED <<env, hist, prev>>
   /\ IF LawApplies(Prop, prog)
      THEN IF ~LawShape(prog, hist)
           THEN st' = [st EXCEPT !.malformed = Listed(@, l)]
           ELSE st' = [Account(st, JudgeLaw(Prop, prog, env, hist), LawRelevant(prog, env, hist), "nolow") EXCEPT !.laws = @ + 1]
      ELSE UNCHANGED st

TraceEof ==
   /\ IsKind("eof")
   /\ l' = l + 1
   /\ JsonSerialize(OutFile, [st EXCEPT !.cfg = st.cfg])
   /\ UNCHANGED <<env, hist, prog, prev, st>>

Next == TraceCfg \/ TraceCall \/ TraceX \/ TraceBegin \/ TraceEnd \/ TraceEof
Spec == Init /\ [][Next]_vars

(* the whole trace was consumed: one state per line plus the initial one *)
TraceAccepted == TLCGet("stats").diameter - 1 = NL
=============================================================================
