---- MODULE ZSelfTest ----
EXTENDS Z, ZSelfVec, Integers, Sequences, TLC
P == INSTANCE ZPure
N == Len(Vec)
Bin(a, b) ==
  /\ ZAdd(a,b) = P!ZAdd(a,b) /\ ZSub(a,b) = P!ZSub(a,b) /\ ZMul(a,b) = P!ZMul(a,b)
  /\ ZLt(a,b) = P!ZLt(a,b) /\ ZLe(a,b) = P!ZLe(a,b)
  /\ (b # <<0>> => /\ ZTDiv(a,b) = P!ZTDiv(a,b) /\ ZTRem(a,b) = P!ZTRem(a,b)
                   /\ ZFDiv(a,b) = P!ZFDiv(a,b) /\ ZFMod(a,b) = P!ZFMod(a,b)
                   /\ ZAdd(ZMul(ZFDiv(a,b), b), ZFMod(a,b)) = a
                   /\ ZAdd(ZMul(ZTDiv(a,b), b), ZTRem(a,b)) = a)
  /\ ZAnd(ZAbs(a), ZAbs(b)) = P!ZAnd(ZAbs(a), ZAbs(b))
Un(a) ==
  /\ ZNeg(a) = P!ZNeg(a) /\ ZAbs(a) = P!ZAbs(a) /\ ZSgn(a) = P!ZSgn(a) /\ ZBitLen(a) = P!ZBitLen(a)
  /\ ZISqrt(ZAbs(a)) = P!ZISqrt(ZAbs(a))
  /\ \A k \in {0,1,7,15,16,17,31,32,47,48,63,64,96} :
        /\ ZShl(a,k) = P!ZShl(a,k) /\ ZShr(a,k) = P!ZShr(a,k) /\ ZPow2(k) = P!ZPow2(k)
        /\ ZShr(ZShl(a,k),k) = a
  /\ ZToLimbs(ZAbs(a), 9) = P!ZToLimbs(ZAbs(a), 9)
  /\ ZFromLimbs(ZToLimbs(ZAbs(a), 9)) = ZAbs(a)
  /\ P!ZFromLimbs(ZToLimbs(ZAbs(a), 9)) = ZAbs(a)
Small == \A k \in {0,1,-1,65535,65536,-65537,2147483647,-2147483647} : ZN(k) = P!ZN(k) /\ ZToInt(ZN(k)) = k /\ P!ZToInt(ZN(k)) = k
ASSUME Small
ASSUME \A i \in 1..N : Un(Vec[i]) \/ PrintT(<<"UNFAIL", Vec[i]>>) = FALSE
ASSUME \A i \in 1..N : \A j \in 1..N : Bin(Vec[i], Vec[j]) \/ (PrintT(<<"BINFAIL", Vec[i], Vec[j]>>) = FALSE)
ASSUME ZAdd(ZPoison, ZN(1)) = ZPoison /\ P!ZMul(ZN(3), ZPoison) = ZPoison
ASSUME PrintT(<<"selftest vectors", N, N*N>>)
====
