------------------------------- MODULE FxAlgoF -------------------------------
(***************************************************************************)
(* LowSpec, floating-point side: math.h floating_point_to_fixed,           *)
(* fixed_to_floating_point, sqrt_std_math and the double-promoted          *)
(* operators, over the IEEE model of FxFloat.                              *)
(***************************************************************************)
EXTENDS FxAlgo, FxFloat

F65536 == FFin(1, P(F), 0)
FHalf  == FFin(1, Z1, -1)
MaxIntD == FFin(1, MaxIntegral, 0)            \* double(limits_::max_integral())
(* math.h:80 floating_point_to_fixed<ft> *)
floating_point_to_fixed(fmt, v) ==
   IF FLt(v, MaxIntD) /\ FLt(FNeg(MaxIntD), v)
   THEN FToInt(FAdd(fmt, FMul(fmt, v, F65536), IF FLt(v, FZero) THEN FNeg(FHalf) ELSE FHalf))
   ELSE quiet_NaN_result
(* math.h:116 fixed_to_floating_point<ft>: static_cast<ft>(value.v) / ft(65536) *)
fixed_to_floating_point(fmt, raw) == FDiv(fmt, FFromInt(fmt, raw), F65536)
(* math.h:627 sqrt_std_math *)
sqrt_std_math(raw) == IF ZIsPoison(raw) THEN ZPoison
                      ELSE floating_point_to_fixed(F64, FSqrt(F64, fixed_to_floating_point(F64, raw)))
=============================================================================
