--------------------------------- MODULE Z ---------------------------------
(***************************************************************************)
(* Numeric substrate, NATIVE variant: the same interface as                *)
(* spec/wide/Z.tla over TLC's (32-bit) or Apalache's (unbounded) built-in  *)
(* integers.  Used for the reduced-width instances of the machine, where   *)
(* no intermediate value exceeds 2^30.                                     *)
(***************************************************************************)
LOCAL INSTANCE Integers
LOCAL INSTANCE Sequences
LOCAL INSTANCE Bitwise

ZPoison == 1073741789            \* never a value of a reduced-width computation (all are below 2^29)
ZIsPoison(a) == a = ZPoison

ZN(k) == k
ZNeg(a) == IF ZIsPoison(a) THEN ZPoison ELSE -a
ZAbs(a) == IF ZIsPoison(a) THEN ZPoison ELSE IF a < 0 THEN -a ELSE a
ZSgn(a) == IF a < 0 THEN -1 ELSE IF a = 0 THEN 0 ELSE 1
ZAdd(a, b) == IF ZIsPoison(a) \/ ZIsPoison(b) THEN ZPoison ELSE a + b
ZSub(a, b) == IF ZIsPoison(a) \/ ZIsPoison(b) THEN ZPoison ELSE a - b
ZMul(a, b) == IF ZIsPoison(a) \/ ZIsPoison(b) THEN ZPoison ELSE a * b
ZLt(a, b) == a < b
ZLe(a, b) == a <= b
ZFDiv(a, b) == IF ZIsPoison(a) \/ ZIsPoison(b) THEN ZPoison
               ELSE IF b > 0 THEN a \div b ELSE (-a) \div (-b)
ZFMod(a, b) == IF ZIsPoison(a) \/ ZIsPoison(b) THEN ZPoison
               ELSE IF b > 0 THEN a % b ELSE -((-a) % (-b))
ZTDiv(a, b) == IF ZIsPoison(a) \/ ZIsPoison(b) THEN ZPoison
               ELSE LET ma == IF a < 0 THEN -a ELSE a
                        mb == IF b < 0 THEN -b ELSE b
                        q  == ma \div mb
                    IN IF (a < 0) = (b < 0) THEN q ELSE -q
ZTRem(a, b) == IF ZIsPoison(a) \/ ZIsPoison(b) THEN ZPoison
               ELSE LET ma == IF a < 0 THEN -a ELSE a
                        mb == IF b < 0 THEN -b ELSE b
                    IN IF a < 0 THEN -(ma % mb) ELSE ma % mb
RECURSIVE ZPow2(_)
ZPow2(k) == IF k = 0 THEN 1 ELSE 2 * ZPow2(k - 1)
ZShl(a, k) == IF ZIsPoison(a) THEN ZPoison ELSE a * ZPow2(k)
ZShr(a, k) == IF ZIsPoison(a) THEN ZPoison ELSE a \div ZPow2(k)
RECURSIVE ZBitLenN(_)
ZBitLenN(m) == IF m = 0 THEN 0 ELSE 1 + ZBitLenN(m \div 2)
ZBitLen(a) == ZBitLenN(IF a < 0 THEN -a ELSE a)
ZAnd(a, b) == IF ZIsPoison(a) \/ ZIsPoison(b) THEN ZPoison ELSE a & b
RECURSIVE ZISqrtAt(_, _)
ZISqrtAt(a, r) == IF (r + 1) * (r + 1) > a THEN r ELSE ZISqrtAt(a, r + 1)
ZISqrt(a) == IF ZIsPoison(a) THEN ZPoison ELSE ZISqrtAt(a, 0)
ZToInt(a) == a
RECURSIVE ZFromLimbs(_)
ZFromLimbs(s) == IF s = <<>> THEN 0 ELSE s[1] + 65536 * ZFromLimbs(Tail(s))
RECURSIVE ZToLimbs(_, _)
ZToLimbs(a, n) == IF n = 0 THEN <<>> ELSE <<a % 65536>> \o ZToLimbs(a \div 65536, n - 1)

a ++ b == ZAdd(a, b)
a -- b == ZSub(a, b)
a ** b == ZMul(a, b)
a // b == ZFDiv(a, b)
a %% b == ZFMod(a, b)
a \prec b == ZLt(a, b)
a \preceq b == ZLe(a, b)
=============================================================================
