# offline build of the TLC override classes (the only compiled part of the framework that does not depend on /repo)
JAR=/opt/veriftools/tla/tla2tools.jar
CM=/opt/veriftools/tla/CommunityModules-deps.jar
setup: lib/fxov/Ov.class
	bin/fxcheck prebuild
lib/fxov/Ov.class: spec/java/fxov/Ov.java
	mkdir -p lib
	javac -nowarn -cp $(JAR):$(CM) -d lib spec/java/fxov/Ov.java
clean:
	rm -rf lib .cache
.PHONY: setup clean
