#!/usr/bin/env python3
"""regenerates /verif/MANIFEST.json from bin/fxprops.py (claimed properties) and properties.jsonl"""
import json, sys
sys.path.insert(0, '/verif/bin')
from fxprops import PROPS, MANIFEST_TEXT
props = [json.loads(l) for l in open('/verif/properties.jsonl')]
checks = []
na = []
for p in props:
    pid = p['id']
    if pid in PROPS and not PROPS[pid].get('unclaimed'):
        mt = MANIFEST_TEXT.get(pid, {})
        checks.append({
            'property_id': pid,
            'quick_cmd': f'bin/fxcheck {pid} --tier quick',
            'thorough_cmd': f'bin/fxcheck {pid} --tier thorough',
            'evidence_file': f'/verif/evidence/{pid}.json',
            'replay_cmd_template': 'bin/fxcheck replay {path}',
            'engine': 'fxcheck',
            'level_claimed': {'category': 'model_checking', 'text': mt.get('text', MANIFEST_TEXT['default']['text']), 'design_ref': 'DESIGN.md section 6, ' + pid},
            'level_note': mt.get('note', MANIFEST_TEXT['default']['note']),
            'technique': mt.get('technique', MANIFEST_TEXT['default']['technique']),
        })
    else:
        na.append({'property_id': pid, 'reason': PROPS.get(pid, {}).get('unclaimed', 'check not built yet (work in progress; DESIGN.md section 6 has the plan)')})
m = {
    'version': 1,
    'setup_cmd': 'make -C /verif setup',
    'hooks': {'guard': 'FIXEDMATH_VERIF',
              'enable': 'no hook inside the library is needed (sequential, stateless API: the linearisation point is the return of the public call); the driver is compiled with -DFIXEDMATH_VERIF, which the library ignores',
              'baseline_off_cmd': 'cmake -G Ninja -DFIXEDMATH_ENABLE_UNIT_TESTS=ON -S /repo -B /repo/_build && cmake --build /repo/_build && ctest --test-dir /repo/_build -j8 --timeout 900',
              'source_commits': [], 'add_only': True},
    'engines': [{'name': 'fxcheck', 'path': 'bin/fxcheck', 'serves_properties': [c['property_id'] for c in checks],
                 'kind_free_text': 'explicit TLA+ specification (spec/*.tla: HighSpec contracts, LowSpec transcription, register machine) checked by TLC: '
                                   'E1 exhaustive model checking of the reduced-width machine, E2 TLC-generated inputs/programs, '
                                   'E3 trace validation of the real code (driver harness/fxdrv.cc rebuilt from /repo in a compiler/optimisation/standard/sanitizer matrix) by TLC against HighSpec'}],
    'checks': checks,
    'notes': 'All verdicts are TLC verdicts on recorded executions of /repo (spec/FxTrace.tla). known_findings.json lists fixed and open findings. See DESIGN.md.',
    'not_applicable': na,
}
json.dump(m, open('/verif/MANIFEST.json', 'w'), indent=1)
print(len(checks), 'claimed;', len(na), 'not claimed')
