"""constant-evaluation side of C08: turn recorded events into a translation unit of static_asserts (one per line), compile it
with -fsyntax-only, and map the diagnostics back to events:
    ok        the call is accepted as a constant expression and has the value observed at run time
    rejected  the call is not a constant expression for that compiler/standard
    differs   constant evaluation gives a different value than run time
"""
import re, subprocess, os

CT = {'i8': 'int8_t', 'u8': 'uint8_t', 'i16': 'int16_t', 'u16': 'uint16_t', 'i32': 'int32_t', 'u32': 'uint32_t', 'i64': 'int64_t',
      'u64': 'uint64_t', 'll': 'long long', 'ull': 'unsigned long long', 'f32': 'float', 'f64': 'double'}
UNS = {'u8', 'u16', 'u32', 'u64', 'ull'}
SQRT_DEP = {'sqrt', 'hypot', 'hypot_sym', 'asin', 'acos', 'asin_pair', 'sqrt_pair'}
NOT_CONSTEXPR_BY_DESIGN = {'sqrt_std', 'sqrt_std_pair'}
TABLE_OPS = {'sin_angle_aprox', 'cos_angle_aprox', 'sqrt_aprox', 'hypot_aprox', 'atan_index_aprox', 'atan_aprox', 'tab_sin', 'tab_cos', 'tab_tan', 'tab_sqrt'}


def w64(l):
    v = 0
    for i, x in enumerate(l[:4]):
        v |= (x & 0xffff) << (16 * i)
    return v


def s64(v):
    return v - (1 << 64) if v >= 1 << 63 else v


def ilit(v):
    v = s64(v)
    if v == -(1 << 63):
        return '(-9223372036854775807ll-1)'
    return f'{v}ll'


def val(tag, limbs):
    v = w64(limbs)
    if tag == 'fx':
        return f'as_fixed({ilit(v)})'
    if tag == 'f32':
        return f'__builtin_bit_cast(float, uint32_t({v & 0xffffffff}u))'
    if tag == 'f64':
        return f'__builtin_bit_cast(double, uint64_t({v}ull))'
    if tag in UNS:
        return f'static_cast<{CT[tag]}>({v}ull)'
    return f'static_cast<{CT[tag]}>({ilit(v)})'


OPSYM = {'add': '+', 'sub': '-', 'mul': '*', 'div': '/'}
UN = {'neg': '(-{0})', 'abs': 'abs({0})', 'floor': 'floor({0})', 'ceil': 'ceil({0})', 'sqrt': 'sqrt({0})', 'sqrt_abacus': 'detail::sqrt_abacus({0})',
      'sin': 'sin({0})', 'cos': 'cos({0})', 'tan': 'tan({0})', 'atan': 'atan({0})', 'asin': 'asin({0})', 'acos': 'acos({0})',
      'rt_d': 'floating_point_to_fixed(fixed_to_floating_point<double>({0}))', 'sqrt_aprox': 'sqrt_aprox({0})',
      'atan_index_aprox': 'atan_index_aprox({0})', 'atan_aprox': 'atan_aprox({0})', 'sin_angle': 'sin_angle({0})', 'cos_angle': 'cos_angle({0})',
      'tan_angle': 'tan_angle({0})', 'a2r': 'angle_to_radians({0})', 'sin_angle_aprox': 'sin_angle_aprox({0})', 'cos_angle_aprox': 'cos_angle_aprox({0})',
      'tab_sin': 'sin_angle_tab({0})', 'tab_cos': 'cos_angle_tab({0})', 'tab_tan': 'tan_tab({0})'}
BIN = {'and': '({0} & {1})', 'atan2': 'atan2({0}, {1})', 'hypot': 'hypot({0}, {1})', 'hypot_sym': 'hypot({0}, {1})', 'hypot_aprox': 'hypot_aprox({0}, {1})'}


def expr(ev, out):
    """(C++ boolean constant expression, None) for the event with run-time result `out` (limbs / list), or (None, reason)"""
    op, t, a = ev['op'], ev['t'], ev['a']
    A = [val(tg, x) for tg, x in zip(t, a)]
    ot = ev.get('ot', 'fx')
    ov = w64(out) if ot != 'b6' else None

    def eq_fx(e):
        return f'({e}).v == {ilit(ov)}'
    if op in NOT_CONSTEXPR_BY_DESIGN:
        return None, 'detail function that is run-time only by design'
    if op in OPSYM and len(t) == 2:
        if ev.get('asg'):
            e = f'[]{{ fixed_t x_ = {A[0]}; x_ {OPSYM[op]}= {A[1]}; return x_; }}()'
            return eq_fx(e), None
        e = f'({A[0]} {OPSYM[op]} {A[1]})'
        if ot == 'f64':
            d = __import__('struct').unpack('<d', ov.to_bytes(8, 'little'))[0]
            if d != d:
                return f'[](double r_){{ return r_ != r_; }}({e})', None
            return f'__builtin_bit_cast(uint64_t, double({e})) == {ov}ull', None
        return eq_fx(e), None
    if op == 'cmp':
        m = sum(int(b) << i for i, b in enumerate(out))
        x, y = A
        return (f'((unsigned({x}=={y}))|(unsigned({x}!={y})<<1)|(unsigned({x}<{y})<<2)|(unsigned({x}<={y})<<3)|(unsigned({x}>{y})<<4)|(unsigned({x}>={y})<<5)) == {m}u'), None
    if op == 'isnan':
        return f'isnan({A[0]}) == {"true" if ov else "false"}', None
    if op in ('shl', 'shr'):
        r = ev.get('r', 0)
        rl = '(-2147483647-1)' if r == -2147483648 else str(r)
        return eq_fx(f'({A[0]} {"<<" if op == "shl" else ">>"} {rl})'), None
    if op == 'i2f':
        f = {'a2f': 'arithmetic_to_fixed', 'make': 'make_fixed', 'i2f': 'integral_to_fixed'}.get(ev.get('via'), 'fixed_t')
        return eq_fx(f'{f}({A[0]})'), None
    if op == 'f2i':
        T = CT[ot]
        f = {'cast': f'static_cast<{T}>({A[0]})', 'f2a': f'fixed_to_arithmetic<{T}>({A[0]})'}.get(ev.get('via'), f'fixed_to_integral<{T}>({A[0]})')
        o = f'static_cast<{T}>({ov}ull)' if ot in UNS else f'static_cast<{T}>({ilit(ov)})'
        return f'{f} == {o}', None
    if op == 'fl2f':
        f = 'fixed_t' if ev.get('via') == 'ctor' else 'floating_point_to_fixed'
        return eq_fx(f'{f}({A[0]})'), None
    if op in ('f2d', 'f2f'):
        T = 'double' if op == 'f2d' else 'float'
        U = 'uint64_t' if op == 'f2d' else 'uint32_t'
        e = f'static_cast<{T}>({A[0]})' if ev.get('via') == 'cast' else f'fixed_to_floating_point<{T}>({A[0]})'
        return f'__builtin_bit_cast({U}, {e}) == {U}({ov}ull)', None
    if op == 'tab_sqrt':
        return f'square_root_tab({A[0]}) == {ov}', None
    if op.endswith('_pair'):
        b = op[:-5]
        if b in UN:
            return eq_fx(UN[b].format(A[1])), None
        return None, 'no expression'
    if op in UN:
        return eq_fx(UN[op].format(A[0])), None
    if op in BIN:
        return eq_fx(BIN[op].format(A[0], A[1])), None
    return None, 'no expression'


HDR = '''#include <fixedmath/math.h>
#include <cstdint>
using namespace fixedmath;
#pragma GCC diagnostic ignored "-Wdeprecated-declarations"
'''


def run_tu(cxx, std, abacus, items, inc, workdir, tag):
    """items: list of (key, boolean expression).  returns {key: 'ok'|'rejected'|'differs'}"""
    src = f'{workdir}/ce_{tag}.cc'
    nhdr = HDR.count('\n')
    with open(src, 'w') as fh:
        fh.write(HDR)
        for _, e in items:
            fh.write(f'static_assert( {e}, "" );\n')
    cmd = [cxx, f'-std={std}', '-fsyntax-only', f'-I{inc}', '-Wno-deprecated-declarations', '-w']
    cmd += ['-ferror-limit=0', '-fconstexpr-steps=100000000'] if 'clang' in cxx else ['-fmax-errors=0', '-fconstexpr-ops-limit=1000000000']
    if abacus:
        cmd.append('-DFIXEDMATH_ENABLE_SQRT_ABACUS_ALGO')
    p = subprocess.run(cmd + [src], stdout=subprocess.PIPE, stderr=subprocess.STDOUT, timeout=3000)
    out = p.stdout.decode('utf-8', 'replace')
    res = {k: 'ok' for k, _ in items}
    base = os.path.basename(src)
    bad = {}
    for line in out.split('\n'):
        m = re.match(r'.*' + re.escape(base) + r':(\d+):\d+: error: (.*)', line)
        if not m:
            continue
        ln = int(m.group(1)) - nhdr - 1
        msg = m.group(2)
        if 0 <= ln < len(items):
            kind = 'differs' if re.search(r'static assertion failed|static_assert failed|static assertion failed due to', msg) else 'rejected'
            # "non-constant condition" / "not an integral constant expression" / "call to non-constexpr function"
            if bad.get(ln) != 'rejected':
                bad[ln] = kind
    for ln, kind in bad.items():
        res[items[ln][0]] = kind
    if p.returncode != 0 and not bad:
        raise RuntimeError('constant-evaluation TU failed without attributable diagnostics:\n' + out[-3000:])
    os.unlink(src)
    return res
