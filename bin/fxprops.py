"""property table and build-configuration matrix for bin/fxcheck"""

def _cfg(cxx, opt, std, abacus=False, san=False):
    cid = f'{cxx}-O{opt}-{std}' + ('-abacus' if abacus else '') + ('-san' if san else '')
    return {'id': cid, 'cxx': cxx, 'opt': opt, 'std': std, 'abacus': abacus, 'san': san}

CONFIGS = []
for cxx in ('g++', 'clang++'):
    for opt in (0, 1, 2, 3):
        for std in ('c++17', 'c++20', 'c++2b'):
            CONFIGS.append(_cfg(cxx, opt, std))
        CONFIGS.append(_cfg(cxx, opt, 'c++17', abacus=True))
    for opt in (0, 2):
        for std in ('c++17', 'c++20'):
            CONFIGS.append(_cfg(cxx, opt, std, san=True))
    CONFIGS.append(_cfg(cxx, 1, 'c++17', san=True))
# a target-like variation: plain char unsigned (the default on ARM / PowerPC Linux)
CONFIGS.append(dict(_cfg('g++', 2, 'c++17'), id='g++-O2-c++17-uchar', extra=['-funsigned-char']))
CONFIGS.append(dict(_cfg('clang++', 2, 'c++20'), id='clang++-O2-c++20-uchar', extra=['-funsigned-char']))
_BY = {c['id']: c for c in CONFIGS}

QUICK = ['g++-O2-c++17', 'clang++-O2-c++20', 'g++-O0-c++17-abacus']
QUICK_SAN = QUICK + ['clang++-O1-c++17-san']
THOROUGH = [c['id'] for c in CONFIGS if not c['san']]      # includes the -funsigned-char variations
THOROUGH_SAN = [c['id'] for c in CONFIGS]

CORE_E1 = {'module': 'MC_Core', 'instances': {'quick': [(8, 2, 3)], 'thorough': [(8, 2, 3), (10, 3, 3)]}}

PROPS = {
    'C01': {'e1': CORE_E1, 'san': True},
    'C02': {'e1': CORE_E1},
    'C03': {'e1': CORE_E1},
    'C04': {'e1': CORE_E1},
    'C06': {'e1': CORE_E1, 'quick_cfgs': QUICK + ['g++-O2-c++17-uchar']},
    'C13': {'e1': dict(CORE_E1, unary={'quick': [('sqrt_abacus', 0, 1048576, 61, 1), ('sqrt_std', 0, 1048576, 67, 0)],
                                        'thorough': [('sqrt_abacus', 0, 1048576, 1, 1), ('sqrt_std', 0, 1048576, 1, 0)]})},
    'C15': {'e1': CORE_E1},
    'C18': {'e1': CORE_E1},
    'C09': {'chunk': 6000, 'e1': {'unary': {'quick': [('sin', -411774, 411774, 61, 0), ('cos', -411774, 411774, 59, 0)],
                                            'thorough': [('sin', -411774, 411774, 1, 0), ('cos', -411774, 411774, 1, 0)]}}},
    'C10': {'chunk': 4000, 'e1': {'unary': {'quick': [('tan', -205887, 205887, 31, 0)], 'thorough': [('tan', -205887, 205887, 1, 0)]}}},
    'C11': {'chunk': 4000, 'e1': {'unary': {'quick': [('atan', 0, 1048576, 127, 0)], 'thorough': [('atan', -262144, 1048576, 1, 0)]}}},
    'C12': {'chunk': 4000, 'e1': {'unary': {'quick': [('asin', -65700, 65700, 17, 1), ('asin', -65699, 65700, 19, 0), ('acos', -65700, 65700, 17, 0)],
                                            'thorough': [('asin', -65700, 65700, 1, 1), ('asin', -65700, 65700, 1, 0),
                                                         ('acos', -65700, 65700, 1, 1), ('acos', -65700, 65700, 1, 0)]}}},
    'C07': {'chunk': 20000, 'quick_cfgs': ['clang++-O1-c++17-san', 'g++-O2-c++20-san', 'clang++-O2-c++20'],
            'thorough_cfgs': [c['id'] for c in CONFIGS if c['san']] + ['g++-O2-c++17', 'clang++-O3-c++20', 'g++-O0-c++17-abacus']},
    'C08': {'chunk': 20000, 'xcfg': True, 'gen_as': 'C07', 'gen_tier': {'thorough': 'quick'},   # thorough = the full configuration matrix on the quick-size corpus
           
            'quick_cfgs': ['g++-O2-c++17', 'clang++-O2-c++20', 'g++-O0-c++17-abacus', 'clang++-O0-c++2b', 'g++-O3-c++20', 'clang++-O1-c++17-abacus'],
            'thorough_cfgs': [c['id'] for c in CONFIGS if not c['san']]},
    'C17': {'chunk': 20000, 'simulate': {'quick': 4000, 'thorough': 150000}},
    'C05': {'chunk': 8000}, 'C16': {'chunk': 8000},
    'C14': {'chunk': 10000}, 'C19': {'chunk': 5000}, 'C20': {'chunk': 4000},
}

def configs_for(prop, tier):
    p = PROPS[prop]
    if tier == 'quick':
        ids = p.get('quick_cfgs') or (QUICK_SAN if p.get('san') else QUICK)
    else:
        ids = p.get('thorough_cfgs') or (THOROUGH_SAN if p.get('san') else THOROUGH)
    return [_BY[i] for i in ids]

MANIFEST_TEXT = {
    'default': {
        'text': 'The property is a predicate of the TLA+ specification (HighSpec, spec/FxContract*.tla). TLC (a) model-checks that the bit-precise '
                'transcription of the code (LowSpec) refines it on every operand combination of a reduced-width instance of the machine, and (b) validates '
                'traces of the real library - TLC-generated landmark/solved-boundary inputs, seeded random and dense sweeps, executed in several '
                'compiler/optimisation/standard configurations rebuilt from /repo - event by event against the same predicate. Exhaustive for the model '
                'at small width; boundary-directed and sampled for the 64-bit code.',
        'note': 'Trusted: TLC 1.8 + BigInteger overrides for wide integers (self-tested against their TLA+ definitions), the driver recording what the '
                'library returned, g++ 12 / clang++ 14 as the compilers users build with. Reduced-width results transfer to 64 bits only as the same spec text.',
        'technique': 'TLA+ spec; TLC model checking (reduced width) + TLC trace validation of real-code executions',
    },
}
