"""property table and build-configuration matrix for bin/fxcheck"""

def _cfg(cxx, opt, std, abacus=False, san=False):
    cid = f'{cxx}-O{opt}-{std}' + ('-abacus' if abacus else '') + ('-san' if san else '')
    return {'id': cid, 'cxx': cxx, 'opt': opt, 'std': std, 'abacus': abacus, 'san': san}

CONFIGS = []
for cxx in ('g++', 'clang++'):
    for opt in (0, 1, 2, 3):
        for std in ('c++17', 'c++20', 'c++2b'):
            CONFIGS.append(_cfg(cxx, opt, std))
        CONFIGS.append(_cfg(cxx, opt, 'c++17', abacus=True))
    for opt in (0, 2):
        for std in ('c++17', 'c++20'):
            CONFIGS.append(_cfg(cxx, opt, std, san=True))
    CONFIGS.append(_cfg(cxx, 1, 'c++17', san=True))
# a target-like variation: plain char unsigned (the default on ARM / PowerPC Linux)
CONFIGS.append(dict(_cfg('g++', 2, 'c++17'), id='g++-O2-c++17-uchar', extra=['-funsigned-char']))
CONFIGS.append(dict(_cfg('clang++', 2, 'c++20'), id='clang++-O2-c++20-uchar', extra=['-funsigned-char']))
# size-optimised build
CONFIGS.append(dict(_cfg('g++', 's', 'c++17'), id='g++-Os-c++17'))
CONFIGS.append(dict(_cfg('clang++', 'z', 'c++20'), id='clang++-Oz-c++20'))
# release-style builds: assertions compiled out
CONFIGS.append(dict(_cfg('g++', 3, 'c++20'), id='g++-O3-c++20-ndebug', extra=['-DNDEBUG']))
CONFIGS.append(dict(_cfg('clang++', 2, 'c++17', abacus=True), id='clang++-O2-c++17-abacus-ndebug', extra=['-DNDEBUG']))
_BY = {c['id']: c for c in CONFIGS}

QUICK = ['g++-O2-c++17', 'clang++-O2-c++20', 'g++-O0-c++17-abacus', 'g++-O3-c++20-ndebug', 'g++-Os-c++17', 'clang++-O2-c++20-uchar']
QUICK_SAN = QUICK + ['clang++-O1-c++17-san']
THOROUGH = [c['id'] for c in CONFIGS if not c['san']]      # includes the -funsigned-char variations
THOROUGH_SAN = [c['id'] for c in CONFIGS]

CORE_E1 = {'module': 'MC_Core', 'instances': {'quick': [(8, 2, 3)], 'thorough': [(8, 2, 3), (10, 3, 3)]}}

PROPS = {
    'C01': {'e1': CORE_E1, 'san': True},
    'C02': {'e1': CORE_E1},
    'C03': {'e1': CORE_E1},
    'C04': {'e1': CORE_E1},
    'C06': {'e1': CORE_E1, 'quick_cfgs': QUICK + ['g++-O2-c++17-uchar']},      # both compilers with -funsigned-char
    'C13': {'e1': dict(CORE_E1, unary={'quick': [('sqrt_abacus', 0, 1048576, 61, 1), ('sqrt_std', 0, 1048576, 67, 0)],
                                        'thorough': [('sqrt_abacus', 0, 1048576, 1, 1), ('sqrt_std', 0, 1048576, 1, 0)]})},
    'C15': {'e1': CORE_E1},
    'C18': {'e1': CORE_E1},
    'C09': {'chunk': 6000, 'e1': {'unary': {'quick': [('sin', -411774, 411774, 61, 0), ('cos', -411774, 411774, 59, 0)],
                                            'thorough': [('sin', -411774, 411774, 1, 0), ('cos', -411774, 411774, 1, 0)]}}},
    'C10': {'chunk': 4000, 'e1': {'unary': {'quick': [('tan', -205887, 205887, 31, 0)], 'thorough': [('tan', -205887, 205887, 1, 0)]}}},
    'C11': {'chunk': 4000, 'e1': {'unary': {'quick': [('atan', 0, 1048576, 127, 0)], 'thorough': [('atan', -262144, 1048576, 1, 0)]}}},
    'C12': {'chunk': 4000, 'e1': {'unary': {'quick': [('asin', -65700, 65700, 17, 1), ('asin', -65699, 65700, 19, 0), ('acos', -65700, 65700, 17, 0)],
                                            'thorough': [('asin', -65700, 65700, 1, 1), ('asin', -65700, 65700, 1, 0),
                                                         ('acos', -65700, 65700, 1, 1), ('acos', -65700, 65700, 1, 0)]}}},
    'C07': {'chunk': 20000, 'quick_cfgs': ['clang++-O1-c++17-san', 'g++-O2-c++20-san', 'clang++-O2-c++20', 'g++-O2-c++17-uchar'],
            'thorough_cfgs': [c['id'] for c in CONFIGS if c['san']] + ['g++-O2-c++17', 'clang++-O3-c++20', 'g++-O0-c++17-abacus']},
    'C08': {'chunk': 20000, 'xcfg': True, 'gen_as': 'C07', 'gen_tier': {'thorough': 'quick'},   # thorough = the full configuration matrix on the quick-size corpus
           
            'quick_cfgs': ['g++-O2-c++17', 'clang++-O2-c++20', 'g++-O0-c++17-abacus', 'clang++-O0-c++2b', 'g++-O3-c++20', 'clang++-O1-c++17-abacus',
                           'g++-O2-c++17-uchar', 'g++-Os-c++17'],
            'thorough_cfgs': [c['id'] for c in CONFIGS if not c['san']]},
    # behaviour outside the listed properties (spec/FxContractXtra.tla); NOT registered in MANIFEST.json
    'X01': {'unclaimed': 'extra', 'chunk': 10000}, 'X02': {'unclaimed': 'extra'}, 'X03': {'unclaimed': 'extra'}, 'X04': {'unclaimed': 'extra'},
    'X05': {'unclaimed': 'extra', 'simulate': {'quick': 3000, 'thorough': 60000}, 'sim_module': 'FxClosureGen', 'nofuzz': True,
            'e1': {'module': 'MC_Closure', 'instances': {'quick': [(8, 2, 3)], 'thorough': [(8, 2, 3), (10, 3, 3)]}}},
    'C17': {'chunk': 20000, 'e1': {'module': 'MC_Laws', 'instances': {'quick': [(6, 2, 1)], 'thorough': [(6, 2, 1), (8, 2, 3)]}}, 'simulate': {'quick': 4000, 'thorough': 150000}},
    'C05': {'chunk': 8000}, 'C16': {'chunk': 8000},
    'C14': {'chunk': 10000}, 'C19': {'chunk': 5000}, 'C20': {'chunk': 4000},
}

def configs_for(prop, tier):
    p = PROPS[prop]
    if tier == 'quick':
        ids = p.get('quick_cfgs') or (QUICK_SAN if p.get('san') else QUICK)
    else:
        ids = p.get('thorough_cfgs') or (THOROUGH_SAN if p.get('san') else THOROUGH)
    return [_BY[i] for i in ids]

_COMMON = ('Verdicts are TLC verdicts: every recorded call of the real library (driver rebuilt from /repo, several compiler/optimisation/'
           'standard configurations) is one step of the trace specification spec/FxTrace.tla and is judged by the property\'s predicate; a '
           'rejection is re-run from a replay file before it is reported. Inputs come from TLC (landmarks, solved boundaries, programs) and, for the '
           'same call shapes, from a coverage-guided search over the library as it is in the working tree (libFuzzer target of the same driver; it only '
           'proposes operands, every proposal is replayed and judged by TLC). ')
_NOTE = ('Trusted: TLC 1.8 with BigInteger overrides for wide integers (self-tested against their TLA+ definitions), the driver recording what the '
         'library returned, g++ 12 / clang++ 14 as the compilers users build with, the rational enclosures of spec/FxReal.tla (pi checked against '
         'Machin inside the spec). Exhaustive only where stated; otherwise boundary-directed (operands solved from the contract\'s own case '
         'boundaries), dense sweeps and seeded random inputs. Reduced-width model checking transfers to 64 bits only as the same specification text.')
_T = 'TLA+ specification; TLC model checking of the transcribed algorithm + TLC trace validation of real-code executions'

def _mt(text, technique=_T, note=_NOTE):
    return {'text': _COMMON + text, 'note': note, 'technique': technique}

MANIFEST_TEXT = {
    'default': _mt('Model part: LowSpec refines HighSpec on every operand combination of the reduced-width machine.'),
    'C01': _mt('Model: TLC, all operand pairs at 8 (thorough: 10) bits; Apalache proves the add/sub clauses for all 2^128 pairs at 64 bits. Code: landmark x '
               'landmark and solved-boundary pairs (exact result on max, -max, -2^63 +- 1) plus seeded random pairs through three kinds of call site '
               '(out of line, inlined into a caller that knows the operand signs, inlined into a vectorisable loop), + - += -=, in g++/clang++ -O0..-O3 '
               'and UBSan-trap builds: this is what caught the optimiser deleting the overflow test.',
               _T + ' + Apalache (symbolic, 64-bit)'),
    'C02': _mt('Model: TLC, all pairs and all scalar types at reduced width. Code: landmark pairs, second operands solved so that the raw product sits on '
               '+-2^63 and on max*2^16 +- 1, operand pairs whose bit lengths add up to 62..65, all ten integral scalar types (incl. long long / unsigned '
               'long long) at their limits, both operand orders, compound forms, three call sites.'),
    'C03': _mt('Model: TLC, all pairs at reduced width (finds the INT_MIN/-1 trap pattern and the lost-bits region on the original code). "No operand '
               'combination raises SIGFPE" is judged on every division event, NaN sentinels and the lowest raw word included. Code: dividends '
               'around 2^31, 2^46, 2^47 against small/large divisors, all integral divisor types at their limits; SIGFPE is caught by the driver and '
               'recorded as an event (trap field), so a trap is a rejected event, not a lost trace. Apalache: the divisor -1 path of fixed / integer '
               '(unsigned negation) is the exact quotient for every raw word but the lowest, at 64 bits.', _T + ' + Apalache (symbolic, 64-bit)'),
    'C04': _mt('Model: TLC at reduced width, every value of every reduced type; Apalache proves both directions at 64 bits. Code: every value of the 8-bit '
               'types and (thorough) of the 16-bit types through all four conversion routes, type limits and +-(2^31-1)+-1 for the wider ones, '
               'fixed->integer around every multiple-of-2^16 boundary of every target range, implicit promotion in mixed +/-.',
               _T + ' + Apalache (symbolic, 64-bit)'),
    'C05': _mt('Code only (no reduced-width float): every binary32 exponent and ~120 binary64 exponents x structured mantissas, exact rounding ties '
               '(k+1/2)/65536 and their neighbours, the +-(2^31-1) limit, NaN/inf/subnormals, seeded random patterns biased to ties; fixed->float/double '
               'sweeps around 2^24, 2^25, 2^53 and the round trip. The contract is evaluated over an exact dyadic IEEE-754 model written in TLA+ '
               '(spec/FxFloat.tla); LowSpec agrees with the code on every event.'),
    'C06': _mt('Model: TLC all pairs at reduced width; Apalache proves the negation/abs/isnan clauses at 64 bits. Code: all six operators on landmark x '
               'landmark pairs including both NaNs and INT64_MIN, random pairs, also built with -funsigned-char.', _T + ' + Apalache (symbolic, 64-bit)'),
    'C07': _mt('Every entry point (all operators and conversions for all operand types, elementary functions, degree helpers, table functions) on finite '
               'and NaN operands, solved boundaries and random inputs, executed in UBSan (trap mode) + ASan builds of both compilers and in plain builds: '
               'an undefined operation, a signal, an out-of-bounds read or a call that does not return within ~5 s is a field of the recorded event and '
               'is rejected by the predicate. Observational on the code; the model side (LowSpec over checked C++ primitives yielding "poison") is '
               'checked for the unary domains by MC_Unary.NoUB.'),
    'C08': _mt('The product of the machine over configurations: the traces of all configurations are merged into one event per call (result groups keyed '
               'by the square-root algorithm the build really selects, probed by the driver) and judged by RuntimeAgree / SqrtAlgosClose; constant '
               'evaluation is a translation unit of one static_assert per sampled call (edge operands first) per compiler x standard, diagnostics mapped '
               'back to events (ok / rejected / differs). Open known finding: the compiled table functions are not constexpr.'),
    'C09': _mt('Model: TLC evaluates LowSpec (bit-precise transcription of sin/cos) against the bound on the raw domain [-2pi, 2pi] (all 823,549 arguments '
               'in the thorough tier) with interval enclosures of sin/pi computed inside TLA+. Code: the same sweep on the real library (thorough: every '
               'argument; quick: every 13th + dense around multiples of phi/4), periodicity pairs (x, x + k*2phi) at integer-width edges and random up to 2^62.'),
    'C10': _mt('Model: LowSpec of tan vs the slope-relative bound on all of [-pi, pi] (thorough). Code: the same sweep, poles x = phi/2 + k phi +- 1 '
               'up to 2^62, odd/period pair events.'),
    'C11': _mt('atan by inversion (x against tan(out +- 5e-5) with enclosures), atan2 by a rotation test. Model: LowSpec of atan over [-2^18, 2^20]. Code: '
               'dense sweep to 2^20, all segment boundaries, 12..256 points per octave to 2^47, odd/monotone pair events, atan2 on landmark pairs '
               '(axes, steep/flat directions) and random pairs at three magnitude scales.'),
    'C12': _mt('Model: LowSpec of asin/acos under both square-root algorithms over all 131,401 arguments around [-1,1] (thorough). Code: the same sweep '
               '(quick: every 3rd, offset by the seed), odd/monotone pairs over the whole domain, acos related to the library\'s own asin.'),
    'C13': _mt('Model: abacus algorithm exhaustively at reduced width (MC_Core) and both algorithms on [0, 2^20] (MC_Unary). Code: both algorithms called '
               'directly and through sqrt(), dense sweeps at 0..2^20, around 2^32, 2^46, 2^47, squares and their neighbours, octave grids, monotonicity '
               'between consecutive events.'),
    'C14': _mt('Exact integer tests (squares) of both bounds. Code: landmark cross product around the three normalisation branches (found the overflow at '
               'max operand 2^30-1), all pairs of [0,255]^2 (thorough), random pairs at three scales, symmetry events, both square-root algorithms.'),
    'C15': _mt('Model: TLC all values at reduced width; Apalache proves floor/ceil at 64 bits. Code: every raw in +-2^18 (thorough), integers +-delta, range ends.',
               _T + ' + Apalache (symbolic, 64-bit)'),
    'C16': _mt('Relational: each mixed event carries the library\'s own fixed_t(t) and promoted result; double results are compared with the IEEE-754 model '
               'in written operand order. Ten integral types + float + double, both orders, four operators, compound forms; landmark and random.'),
    'C17': _mt('The laws are programs of the register machine (spec/FxLaws.tla): TLC generates landmark instances and, under tlc -simulate, random '
               'programs whose results feed the law (spec/FxProgGen.tla); the real library executes them; the trace specification checks the data flow '
               '(logged operands = registers), the shape of the recorded law tail and the law. Apalache proves the +/- laws at 64 bits.',
               _T + ' on programs generated by TLC (-simulate) + Apalache'),
    'C18': _mt('Model: TLC all (x, r) and all pairs for & at reduced width. Code: landmarks x shift counts {INT_MIN, ..., -1, 0..63}, random.'),
    'C19': _mt('All 1,234 table entries against enclosures; sin/cos_angle_aprox on a complete sweep around 0, strided sweeps of the whole int32 range and '
               '(thorough) ALL 2^32 angles aggregated by the driver into one event per distinct (d mod 360, result); sqrt_aprox and atan_index_aprox on '
               'dense, octave and random inputs. LowSpec of the table functions (tables read from the built library) agrees with the code on every event.'),
    'C20': _mt('angle_to_radians for every value of the 8/16-bit types and ranges of the wider ones; sin/cos/tan_angle for every d in [-360, 360] through '
               'every carrier type, plus events that run the same d through all types and demand identical results.'),
}
